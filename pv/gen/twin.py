"""Reference twin of a function: the same program with every binding site and every
control-flow bracket made explicit *by construction*, independent of ptera's rewriter.

Scheme (deliberately boring): statements are left exactly as written; after every statement that
binds names of the function's own scope, one line per bound name `v = SITE(id, 'v', v)` is appended
(loop / with / except targets: at the top of the body).  Assignment expressions, attribute and
subscript stores, `return` and `yield` are wrapped in place.  The function body is wrapped in
try / except BaseException / finally that call META('#enter' | '#error' | '#exit'), every `for`
body in try/finally calling META('#loop_v' | '#endloop_v').

SITE logs (name, value) and returns the value - or a substitute, which makes the twin the
*substituted program* of C04/C16.  META logs (name, value) and returns value (or a substitute
for '#value').
"""
import ast
import copy


class _Twin(ast.NodeTransformer):
    def __init__(self, fname, declared_only="raise"):
        self.fname = fname
        self.sid = 0
        self.sites = []  # (sid, name, form, lineno)
        self.depth = 0
        self.declared_only = declared_only

    # -- helpers
    def site(self, name, form, value, node):
        self.sid += 1
        self.sites.append((self.sid, name, form, getattr(node, "lineno", 0)))
        return ast.Call(
            func=ast.Name(id="SITE", ctx=ast.Load()),
            args=[ast.Constant(self.sid), ast.Constant(name), ast.Constant(form), value],
            keywords=[],
        )

    def rebind(self, name, form, node):
        return ast.Assign(
            targets=[ast.Name(id=name, ctx=ast.Store())],
            value=self.site(name, form, ast.Name(id=name, ctx=ast.Load()), node),
            lineno=0,
        )

    def meta(self, name, value=None):
        return ast.Call(
            func=ast.Name(id="META", ctx=ast.Load()),
            args=[ast.Constant(name), value if value is not None else ast.Constant(True)],
            keywords=[],
        )

    @staticmethod
    def target_leaves(t):
        """Leaf targets (names, attributes, subscripts) in binding order."""
        if isinstance(t, (ast.Tuple, ast.List)):
            out = []
            for e in t.elts:
                out += _Twin.target_leaves(e)
            return out
        if isinstance(t, ast.Starred):
            return _Twin.target_leaves(t.value)
        return [t]

    @staticmethod
    def target_names(t):
        """Names bound by a target, in binding order (own scope only)."""
        if isinstance(t, ast.Name):
            return [t.id]
        if isinstance(t, (ast.Tuple, ast.List)):
            out = []
            for e in t.elts:
                out += _Twin.target_names(e)
            return out
        if isinstance(t, ast.Starred):
            return _Twin.target_names(t.value)
        return []

    def body(self, stmts):
        out = []
        for s in stmts:
            r = self.visit(s)
            if isinstance(r, list):
                out.extend(r)
            elif r is not None:
                out.append(r)
        return out

    # -- scopes: nested functions / classes / lambdas are left untouched
    def _header(self, node):
        """A nested def / lambda / class: its body is another scope, but its decorators, default values,
        annotations, base classes are evaluated by f itself (they may bind f's names with a walrus)."""
        for field in ("decorator_list", "bases"):
            if hasattr(node, field):
                setattr(node, field, [self.visit(e) for e in getattr(node, field)])
        if hasattr(node, "keywords"):
            for kw in node.keywords:
                kw.value = self.visit(kw.value)
        a = getattr(node, "args", None)
        if isinstance(a, ast.arguments):
            a.defaults = [self.visit(e) for e in a.defaults]
            a.kw_defaults = [self.visit(e) if e is not None else None for e in a.kw_defaults]
        return node

    def visit_target_exprs(self, t):
        """The expressions evaluated inside an assignment target (object of an attribute, object and index
        of a subscript) belong to f's body like any other expression."""
        if isinstance(t, (ast.Tuple, ast.List)):
            t.elts = [self.visit_target_exprs(e) for e in t.elts]
        elif isinstance(t, ast.Starred):
            t.value = self.visit_target_exprs(t.value)
        elif isinstance(t, ast.Attribute):
            t.value = self.visit(t.value)
        elif isinstance(t, ast.Subscript):
            t.value = self.visit(t.value)
            t.slice = self.visit(t.slice)
        return t

    def visit_FunctionDef(self, node):
        if self.depth:
            return self._header(node)
        self.depth += 1
        pre = []
        a = node.args
        for arg in [*a.posonlyargs, *a.args, *a.kwonlyargs, a.vararg, a.kwarg]:
            if arg is not None:
                pre.append(self.rebind(arg.arg, "param", node))
        body = node.body
        doc = []
        if body and isinstance(body[0], ast.Expr) and isinstance(getattr(body[0], "value", None), ast.Constant) and isinstance(body[0].value.value, str):
            doc, body = [body[0]], body[1:]
        # `global` / `nonlocal` declarations must stay ahead of the parameter hooks' uses
        decls = [s for s in body if isinstance(s, (ast.Global, ast.Nonlocal))]
        rest = [s for s in body if not isinstance(s, (ast.Global, ast.Nonlocal))]
        # the entry event belongs to the activation: if its delivery raises, #error and #exit follow
        inner = [ast.Expr(self.meta("#enter"))] + pre + self.body(rest)
        # falling off the end is a normal completion returning None
        inner.append(ast.Return(value=self.meta("#value", ast.Constant(None))))
        handler = ast.ExceptHandler(
            type=ast.Name(id="BaseException", ctx=ast.Load()),
            name="_pv_err",
            body=[ast.Expr(self.meta("#error", ast.Name(id="_pv_err", ctx=ast.Load()))), ast.Raise()],
        )
        tr = ast.Try(body=inner, handlers=[handler], orelse=[], finalbody=[ast.Expr(self.meta("#exit"))])
        new = ast.FunctionDef(
            name=self.fname,
            args=node.args,
            body=doc + decls + [tr],
            decorator_list=[],
            returns=node.returns,
            type_comment=None,
            type_params=[],
        )
        self.depth -= 1
        return new

    visit_AsyncFunctionDef = lambda self, node: self._header(node)
    visit_Lambda = lambda self, node: self._header(node)

    def visit_ClassDef(self, node):
        return self._header(node)

    # comprehensions: their iteration variables are not f's; a walrus inside binds in f's scope
    def _comp(self, node):
        self.generic_visit(node)
        return node

    # -- statements
    def visit_Assign(self, node):
        node.value = self.visit(node.value)
        node.targets = [self.visit_target_exprs(t) for t in node.targets]
        post = []
        if len(node.targets) == 1 and isinstance(node.targets[0], (ast.Attribute, ast.Subscript)) and isinstance(node.targets[0].value, ast.Name):
            t = node.targets[0]
            if isinstance(t, ast.Attribute):
                nm = f"{t.value.id}.{t.attr}"
                node.value = self.site(nm, "attr", node.value, node)
                return node
            # subscript: the reported name contains the evaluated index; evaluate the value, then
            # the index (Python's order), once each
            tmp = f"_pv_idx{self.sid}"
            tmpv = f"_pv_val{self.sid}"
            prev = ast.Assign(targets=[ast.Name(id=tmpv, ctx=ast.Store())], value=node.value, lineno=0)
            pre = ast.Assign(targets=[ast.Name(id=tmp, ctx=ast.Store())], value=t.slice, lineno=0)
            self.sid += 1
            self.sites.append((self.sid, t.value.id + "[..]", "index", node.lineno))
            val = ast.Call(
                func=ast.Name(id="SITE_INDEX", ctx=ast.Load()),
                args=[ast.Constant(self.sid), ast.Constant(t.value.id), ast.Name(id=tmp, ctx=ast.Load()), ast.Name(id=tmpv, ctx=ast.Load())],
                keywords=[],
            )
            new = ast.Assign(
                targets=[ast.Subscript(value=t.value, slice=ast.Name(id=tmp, ctx=ast.Load()), ctx=ast.Store())],
                value=val, lineno=0,
            )
            return [prev, pre, new]
        form = "chain" if len(node.targets) > 1 else ("assign" if isinstance(node.targets[0], ast.Name) else "unpack")
        for t in node.targets:
            for leaf in self.target_leaves(t):
                if isinstance(leaf, ast.Name):
                    post.append(self.rebind(leaf.id, form, node))
                elif isinstance(leaf, ast.Attribute) and isinstance(leaf.value, ast.Name):
                    # an attribute store inside a tuple / chained target: reported (and substituted) like a plain one
                    nm = f"{leaf.value.id}.{leaf.attr}"
                    load = ast.Attribute(value=ast.Name(id=leaf.value.id, ctx=ast.Load()), attr=leaf.attr, ctx=ast.Load())
                    store = ast.Attribute(value=ast.Name(id=leaf.value.id, ctx=ast.Load()), attr=leaf.attr, ctx=ast.Store())
                    post.append(ast.Assign(targets=[store], value=self.site(nm, "attr", load, node), lineno=0))
        return [node] + post

    def visit_AugAssign(self, node):
        node.target = self.visit_target_exprs(node.target)
        node.value = self.visit(node.value)
        if isinstance(node.target, ast.Name):
            return [node, self.rebind(node.target.id, "aug", node)]
        t = node.target
        if isinstance(t, ast.Attribute) and isinstance(t.value, ast.Name):
            # `o.at += v` is a store to o.at like `o.at = ...`: reported (and substituted) after it
            nm = f"{t.value.id}.{t.attr}"
            load = ast.Attribute(value=ast.Name(id=t.value.id, ctx=ast.Load()), attr=t.attr, ctx=ast.Load())
            store = ast.Attribute(value=ast.Name(id=t.value.id, ctx=ast.Load()), attr=t.attr, ctx=ast.Store())
            return [node, ast.Assign(targets=[store], value=self.site(nm, "attr", load, node), lineno=0)]
        return node

    def visit_AnnAssign(self, node):
        if node.value is None:
            if isinstance(node.target, ast.Name):
                # declared-only variable: must be supplied from outside, else NameError here
                self.sid += 1
                self.sites.append((self.sid, node.target.id, "declare", node.lineno))
                call = ast.Call(
                    func=ast.Name(id="DECLARE", ctx=ast.Load()),
                    args=[ast.Constant(self.sid), ast.Constant(node.target.id)],
                    keywords=[],
                )
                return [ast.Assign(targets=[ast.Name(id=node.target.id, ctx=ast.Store())], value=call, lineno=0)]
            return node
        node.value = self.visit(node.value)
        if isinstance(node.target, ast.Name):
            return [node, self.rebind(node.target.id, "ann", node)]
        return node

    def visit_NamedExpr(self, node):
        node.value = self.site(node.target.id, "walrus", self.visit(node.value), node)
        return node

    def _imports(self, node):
        post = []
        for al in node.names:
            nm = al.asname or al.name
            if "." in nm:
                nm = nm.split(".")[0]
                form = "import-dotted"
            else:
                form = "import"
            post.append(self.rebind(nm, form, node))
        return [node] + post

    visit_Import = _imports
    visit_ImportFrom = _imports

    def visit_For(self, node):
        node.iter = self.visit(node.iter)
        names = self.target_names(node.target)
        pre = [self.rebind(nm, "for", node) for nm in names]
        inner = pre + self.body(node.body)
        # ptera orders the per-variable brackets by set iteration; only per-variable nesting is compared
        enters = [ast.Expr(self.meta(f"#loop_{nm}")) for nm in names]
        exits = [ast.Expr(self.meta(f"#endloop_{nm}")) for nm in names]
        if names:
            node.body = [ast.Try(body=enters + inner, handlers=[], orelse=[], finalbody=exits)]
        else:
            node.body = inner
        node.orelse = self.body(node.orelse)
        return node

    def visit_While(self, node):
        node.test = self.visit(node.test)
        node.body = self.body(node.body)
        node.orelse = self.body(node.orelse)
        return node

    def visit_If(self, node):
        node.test = self.visit(node.test)
        node.body = self.body(node.body)
        node.orelse = self.body(node.orelse)
        return node

    def visit_With(self, node):
        # `with A as x, B as y:` is `with A as x:` around `with B as y:` - x is bound (and reported)
        # before B is evaluated
        if len(node.items) > 1:
            inner = ast.With(items=node.items[1:], body=node.body, lineno=node.lineno, col_offset=node.col_offset)
            node = ast.With(items=node.items[:1], body=[inner], lineno=node.lineno, col_offset=node.col_offset)
        it = node.items[0]
        it.context_expr = self.visit(it.context_expr)
        pre = []
        if it.optional_vars is not None:
            it.optional_vars = self.visit_target_exprs(it.optional_vars)
            for nm in self.target_names(it.optional_vars):
                pre.append(self.rebind(nm, "with", node))
        node.body = pre + self.body(node.body)
        return node

    def visit_Match(self, node):
        node.subject = self.visit(node.subject)
        for case in node.cases:
            names = []
            for sub in ast.walk(case.pattern):
                nm = getattr(sub, "name", None) or getattr(sub, "rest", None)
                if isinstance(nm, str) and nm not in names:
                    names.append(nm)
            if case.guard is None:
                case.body = [self.rebind(nm, "match", case.pattern) for nm in names] + self.body(case.body)
            else:
                # the names are bound (and reported) when the pattern has matched, before the guard
                reports = [ast.NamedExpr(target=ast.Name(id=nm, ctx=ast.Store()),
                                         value=self.site(nm, "match", ast.Name(id=nm, ctx=ast.Load()), case.pattern)) for nm in names]
                guard = self.visit(case.guard)
                if reports:
                    guard = ast.BoolOp(op=ast.And(), values=[
                        ast.Subscript(value=ast.Tuple(elts=reports + [ast.Constant(True)], ctx=ast.Load()), slice=ast.Constant(-1), ctx=ast.Load()),
                        guard])
                case.guard = guard
                case.body = self.body(case.body)
        return node

    def visit_Try(self, node):
        node.body = self.body(node.body)
        for h in node.handlers:
            pre = [self.rebind(h.name, "except", h)] if h.name else []
            h.body = pre + self.body(h.body)
        node.orelse = self.body(node.orelse)
        node.finalbody = self.body(node.finalbody)
        return node

    def visit_Return(self, node):
        val = self.visit(node.value) if node.value is not None else ast.Constant(None)
        node.value = self.meta("#value", val)
        return node

    def visit_Yield(self, node):
        val = self.visit(node.value) if node.value is not None else ast.Constant(None)
        return self.meta("#receive", ast.Yield(value=self.meta("#yield", val)))

    def visit_Expr(self, node):
        node.value = self.visit(node.value)
        return node


class _Locate(ast.NodeTransformer):
    def __init__(self, fname, new_name):
        self.fname, self.new_name, self.sites = fname, new_name, None

    def visit_FunctionDef(self, node):
        if node.name == self.fname and self.sites is None:
            tw = _Twin(self.new_name or self.fname)
            new = tw.visit(node)
            self.sites = tw.sites
            return new
        self.generic_visit(node)
        return node


def twinify(src, fname="f", new_name=None):
    """Return (twin_source, sites) for the first function called `fname` in `src` (any depth)."""
    tree = ast.parse(src)
    loc = _Locate(fname, new_name)
    tree = loc.visit(tree)
    if loc.sites is None:
        raise ValueError(f"no function {fname} in source")
    ast.fix_missing_locations(tree)
    return ast.unparse(tree), loc.sites


def own_scope_binders(src, fname="f"):
    """(sid, name, form, lineno) of every binding site of the function's own body."""
    return twinify(src, fname)[1]

"""Selector IR, exhaustive enumeration, documented spellings, whitespace variants, decoding.

IR
  Cap  = (base, alias, tag, val, focus)      base: 'x' | '#value' | '*' | '$' (generic, alias required)
                                            val : None | ('=', text) | ('~', fn, arg)
  Call = (fn, fntag, caps, children)        fn: 'f' | '*'

The IR fixes what the selector *means*; `expected()` derives from it the structure the compiled
selector must have; `spellings()` lists every documented way of writing it.  Neither uses ptera.
"""
import itertools
from collections import namedtuple

Cap = namedtuple("Cap", "base alias tag val focus")
Call = namedtuple("Call", "fn fntag caps children")


def cap(base, alias=None, tag=None, val=None, focus=False):
    return Cap(base, alias, tag, val, focus)


# ------------------------------------------------------------------ menus

FULL_CAPS = [
    cap("x"),
    cap("y"),
    cap("x", alias="q"),
    cap("x", tag="A"),
    cap("x", val=("=", "1")),
    cap("x", val=("=", "'s'")),
    cap("x", val=("~", "lt", "3")),
    cap("$", alias="v"),
    cap("$", alias="v", tag="A"),
    cap("*", tag="A"),
    cap("#value"),
    cap("#value", alias="r"),
    cap("#enter"),
    cap("#value", val=("=", "2")),
    cap("y", alias="w", tag="B", val=("=", "0")),
]
SMALL_CAPS = [cap("x"), cap("y", alias="q"), cap("$", alias="v", tag="A"), cap("#value", alias="r"),
              cap("x", val=("=", "1")), cap("#value", val=("=", "2"))]


def capture_name(c):
    """The key under which the capture is reported."""
    if c.alias:
        return c.alias
    if c.base in ("*", "$"):
        return None
    return c.base


def cap_sets(menu, width):
    """All ordered tuples of <= width captures with pairwise distinct capture names."""
    out = [()]
    for k in range(1, width + 1):
        for t in itertools.permutations(menu, k):
            names = [capture_name(c) for c in t]
            if len(set(names)) == len(names):
                out.append(t)
    return out


def with_focus_choices(call):
    """The call itself (no focus) and every way of marking exactly one capture as the focus."""
    yield call
    paths = list(_cap_paths(call, ()))
    for p in paths:
        yield _set_focus(call, p)


def _cap_paths(call, prefix):
    for i, _ in enumerate(call.caps):
        yield prefix + (("cap", i),)
    for j, ch in enumerate(call.children):
        yield from _cap_paths(ch, prefix + (("child", j),))


def _set_focus(call, path):
    kind, i = path[0]
    if kind == "cap":
        caps = list(call.caps)
        caps[i] = caps[i]._replace(focus=True)
        return call._replace(caps=tuple(caps))
    ch = list(call.children)
    ch[i] = _set_focus(ch[i], path[1:])
    return call._replace(children=tuple(ch))


def shapes(max_calls, max_depth, max_children):
    """All call-tree shapes (nested tuples of children) within the bounds."""

    def gen(depth, budget):
        if budget < 1:
            return
        yield (), 1
        if depth >= max_depth:
            return
        for k in range(1, max_children + 1):
            for chs, used in forests(k, depth + 1, budget - 1):
                yield chs, 1 + used

    def forests(k, depth, budget):
        if k == 0:
            yield (), 0
            return
        for sh, used in gen(depth, budget - (k - 1)):
            for rest, u2 in forests(k - 1, depth, budget - used):
                yield (sh,) + rest, used + u2

    return [s for s, _ in gen(1, max_calls)]


FN_NAMES = ["f", "g", "h", "f"]


def enumerate_ir(menu, width, max_calls, max_depth, max_children, fntags=(None,), star_root=False):
    """Every IR selector within the bounds (before choosing the focus)."""
    csets = cap_sets(menu, width)
    for shape in shapes(max_calls, max_depth, max_children):
        n = _count(shape)
        for combo in itertools.product(csets, repeat=n):
            for fntag in fntags:
                it = iter(combo)
                names = iter(FN_NAMES)
                call = _build(shape, it, names)
                call = call._replace(fntag=fntag)
                yield call
                if star_root:
                    yield call._replace(fn="*", fntag=fntag or "R")


def _count(shape):
    return 1 + sum(_count(s) for s in shape)


def _build(shape, capit, names):
    fn = next(names)
    caps = next(capit)
    children = tuple(_build(s, capit, names) for s in shape)
    return Call(fn, None, caps, children)


def is_degenerate(call, root=True):
    """A call with neither captures nor children can only be written as a bare name: as the root
    that is an Element (a different kind of selector), so it is not part of the Call space."""
    if root and not call.caps and not call.children:
        return True
    return False


# ------------------------------------------------------------------ expected structure


def expected(call):
    """Structure the compiled selector must decode to (see decode())."""
    return (
        "call",
        call.fn if call.fn != "*" else None,
        ("@" + call.fntag) if call.fntag else None,
        tuple(expected_cap(c) for c in call.caps),
        tuple(expected(ch) for ch in call.children),
    )


def expected_cap(c):
    name = None if c.base in ("*", "$") else c.base
    val = None
    if c.val:
        if c.val[0] == "=":
            val = ("sym", c.val[1])
        else:
            val = ("match", ("call", ("sym", c.val[1]), (("sym", c.val[2]),)))
    return ("el", name, capture_name(c), ("@" + c.tag) if c.tag else None, val, (1,) if c.focus else ())


def decode(sel):
    """Structure of a compiled (parsed, unresolved) selector; uses only public attributes."""
    from ptera.selector import Call as PCall, Element, VSymbol, VCall, MatchFunction
    from ptera.utils import ABSENT

    def dv(v):
        if v is ABSENT:
            return None
        if isinstance(v, VSymbol):
            return ("sym", v.value)
        if isinstance(v, VCall):
            if v.fn is MatchFunction:
                return ("match",) + tuple(dv(a) for a in v.args)
            return ("call", dv(v.fn), tuple(dv(a) for a in v.args))
        return ("raw", repr(v))

    if isinstance(sel, Element):
        nm = sel.name.value if isinstance(sel.name, VSymbol) else sel.name
        cat = sel.category.value if isinstance(sel.category, VSymbol) else (None if sel.category is None else repr(sel.category))
        return ("el", nm, sel.capture, cat, dv(sel.value), tuple(sorted(sel.tags)))
    assert isinstance(sel, PCall), sel
    el = sel.element
    nm = el.name.value if isinstance(el.name, VSymbol) else el.name
    cat = el.category.value if isinstance(el.category, VSymbol) else (None if el.category is None else repr(el.category))
    extra = ()
    if el.capture is not None or el.tags or dv(el.value) is not None or sel.immediate:
        extra = (("function-element-carries", el.capture, tuple(el.tags), dv(el.value), sel.immediate),)
    return ("call", nm, cat, tuple(decode(c) for c in sel.captures), tuple(decode(c) for c in sel.children)) + extra


# ------------------------------------------------------------------ spellings (token lists)


def cap_spellings(c, bare_focus=False):
    """Token lists for one capture.  bare_focus: written after '>' so the '!' is implicit."""
    heads = []
    bang = ["!"] if (c.focus and not bare_focus) else []
    if c.base == "$":
        heads.append(bang + ["$", c.alias])
        heads.append(bang + ["*", "as", c.alias])
        alias_done = True
    else:
        heads.append(bang + [c.base])
        alias_done = False
    outs = []
    for h in heads:
        t = list(h)
        if c.alias and not alias_done:
            t += ["as", c.alias]
        if c.tag:
            t += [":", "@" + c.tag]
        if c.val:
            if c.val[0] == "=":
                t += ["=", c.val[1]]
            else:
                t += ["~", c.val[1], "(", c.val[2], ")"]
        outs.append(t)
    if c.focus and bare_focus:
        # the explicit mark is also allowed after '>'
        outs += [["!"] + o for o in outs[:1]]
    return outs


def fn_tokens(call):
    t = [call.fn]
    if call.fntag:
        t += [":", "@" + call.fntag]
    return t


def _join_items(items):
    out = []
    for i, it in enumerate(items):
        if i:
            out.append(",")
        out += it
    return out


def spellings(call, root=True, limit=64):
    """All documented spellings of the IR call as token lists (deduplicated, deterministic).

    root: the call is written outside any call parentheses (where a bare `as r` / trailing name
    means the focus); inside parentheses the same notations denote plain captures."""
    res = []

    def add(t):
        if t not in res and len(res) < limit:
            res.append(t)

    cap_alts = [cap_spellings(c) for c in call.caps]
    child_alts = [spellings(ch, root=False, limit=6) for ch in call.children]
    last_child_out = spellings(call.children[-1], root=root, limit=6) if call.children else []

    def paren(caps_sel, children_sel):
        items = list(caps_sel) + list(children_sel)
        return fn_tokens(call) + ["("] + _join_items(items) + [")"]

    # 1. everything inside the parentheses (first alternative of each item, then single-item variations)
    base_caps = [a[0] for a in cap_alts]
    base_children = [a[0] for a in child_alts]
    add(paren(base_caps, base_children))
    for i, alts in enumerate(cap_alts):
        for alt in alts[1:]:
            add(paren(base_caps[:i] + [alt] + base_caps[i + 1 :], base_children))
    for i, alts in enumerate(child_alts):
        for alt in alts[1:]:
            add(paren(base_caps, base_children[:i] + [alt] + base_children[i + 1 :]))

    def head(caps_sel, children_sel):
        """Call written with the given items; bare name when there are none."""
        if not caps_sel and not children_sel:
            return [fn_tokens(call), fn_tokens(call) + ["(", ")"]]
        return [paren(caps_sel, children_sel)]

    # 2. the last child pulled out with '>'   f(a, g(..)) == f(a) > g(..)
    if call.children:
        for h in head(base_caps, base_children[:-1]):
            for alt in last_child_out:
                add(h + [">"] + alt)
                add(h + [">", "("] + alt + [")"])
    # 3. the focus capture, when it is the last capture, pulled out with '>'   f(a, !x) == f(a) > x
    if call.caps and call.caps[-1].focus:
        for h in head(base_caps[:-1], base_children):
            for alt in cap_spellings(call.caps[-1], bare_focus=True):
                add(h + [">"] + alt)
    # 4. f(..) as r  ==  f(.., #value as r)   (focus outside call parentheses, plain inside them)
    if call.caps:
        last = call.caps[-1]
        if last.base == "#value" and last.alias and not last.tag and not last.val and last.focus == root:
            for h in head(base_caps[:-1], base_children):
                if h[-1] == ")":
                    add(h + ["as", last.alias])
        # 5. f(..)=c  ==  f(.., #value=c)
        if last.base == "#value" and not last.alias and not last.tag and last.val and last.val[0] == "=" and not last.focus:
            for h in head(base_caps[:-1], base_children):
                if h[-1] == ")":
                    add(h + ["=", last.val[1]])
    return res


# ------------------------------------------------------------------ rendering with whitespace

OPERATORS = {">", "(", ")", ",", "!", "!!", ":", "=", "~", "$", "as"}


def render(tokens, mode="min", at=None):
    """mode: min | spaced | newline | perturb (extra whitespace at boundary `at`)."""
    out = []
    for i, t in enumerate(tokens):
        sep = ""
        if i:
            if mode == "spaced":
                sep = " "
            elif mode == "newline":
                sep = "\n  " if t in OPERATORS else " "
            elif mode == "newline-after":
                sep = "\n\t" if tokens[i - 1] in OPERATORS else " "
            if t == "as" or tokens[i - 1] == "as":
                sep = sep or " "
            if mode == "perturb" and at == i:
                sep = sep + " \t\n "
        out.append(sep + t)
    text = "".join(out)
    if mode == "newline":
        text = "\n" + text + "\n"
    return text


def renderings(tokens, thorough=False):
    outs = [render(tokens, "min"), render(tokens, "spaced"), render(tokens, "newline"), render(tokens, "newline-after")]
    if thorough:
        for i in range(1, len(tokens)):
            outs.append(render(tokens, "perturb", at=i))
    seen, res = set(), []
    for o in outs:
        if o not in seen:
            seen.add(o)
            res.append(o)
    return res


# ------------------------------------------------------------------ C18 support


def _usable_in_c18(call):
    """Restrict to names that exist in C18's fixed environment (f(x, y) > z; g(x) > y)."""
    return True


def c18_seed_selectors(tier):
    """Valid selectors (spaced rendering of the first spelling) used as edit-neighbour seeds."""
    menu = [cap("x"), cap("x", alias="q"), cap("y", tag="A"), cap("x", val=("=", "1")),
            cap("x", val=("~", "lt", "3")), cap("$", alias="v"), cap("#value", alias="r"), cap("*", tag="A")]
    out = []
    for call in enumerate_ir(menu, 2 if tier == "thorough" else 1, 2, 2, 1):
        if is_degenerate(call):
            continue
        for c in with_focus_choices(call):
            sp = spellings(c)
            out.append(render(sp[0], "spaced"))
            if len(sp) > 1:
                out.append(render(sp[-1], "spaced"))
    return out


def c18_injections(tier):
    """(kind, text): every C18 seed selector with one ill-formedness injected."""
    res = []
    menu = [cap("x"), cap("y", alias="q")]
    for call in enumerate_ir(menu, 1, 2, 2, 1):
        if is_degenerate(call):
            continue
        for c in with_focus_choices(call):
            if not any(_has_focus(c2) for c2 in [c]):
                continue
            base = spellings(c)[0]
            text = render(base, "spaced")
            # unknown meta variable appended as context of the outermost call
            res.append(("unknown-meta", _inject_first_paren(base, ["#foo"])))
            res.append(("unresolvable-function", text.replace("f", "nope", 1)))
            res.append(("non-function-target", text.replace("f", "n", 1)))
            if "! x" in text:
                res.append(("second-focus-without-first", text.replace("! x", "!! x", 1)))
                res.append(("non-tag-category", text.replace("! x", "! x : n", 1)))
                res.append(("unknown-variable", text.replace("! x", "! nope", 1)))
    return [(k, t) for k, t in res if t]


def _has_focus(call):
    return any(c.focus for c in call.caps) or any(_has_focus(ch) for ch in call.children)


def _inject_first_paren(tokens, extra):
    t = list(tokens)
    if "(" not in t:
        return None
    i = t.index("(")
    if t[i + 1] == ")":
        t[i + 1 : i + 1] = extra
    else:
        t[i + 1 : i + 1] = extra + [","]
    return render(t, "spaced")

"""MiniPy: exhaustive enumeration of small function bodies over ptera's statement forms.

A program is a list of statements filled from a menu; compound statements have bodies that are
filled recursively.  Locals are named a, b, c, ... in order of first binding (enumeration up to
consistent renaming); every right-hand side is `E(k, <current value>)` so that every evaluation is
observable in order; the function ends with `return E(99, SNAP(locals()))`.

The output of the enumerator is plain Python source for `def f(x, o, d)`, plus metadata.
"""
from collections import namedtuple

Ctx = namedtuple("Ctx", "nn ne cur flags loop")
NAMES = "abehijkmnpqrstuvwyz"  # skips c (closure cell), d, f, g, o, x, l

Prog = namedtuple("Prog", "src forms flags size")


def _new(ctx, k=1):
    names = [NAMES[ctx.nn + i] for i in range(k)]
    return names, ctx._replace(nn=ctx.nn + k)


def _eids(ctx, k):
    return [ctx.ne + i + 1 for i in range(k)], ctx._replace(ne=ctx.ne + k)


class Form:
    """One menu entry.  template lines use {n1..n3} new names, {e1..e3} effect ids, {p} current value."""

    def __init__(self, name, lines, cur=None, flags=(), bodies=0, loop=False, needs_loop=False,
                 tier="quick", body_heads=None, gen=False, special=False):
        self.special = special  # only generated when named explicitly in `only`
        self.name = name
        self.lines = [lines] if isinstance(lines, str) else list(lines)
        self.cur = cur
        self.flags = frozenset(flags) | ({"gen"} if gen else set())
        self.bodies = bodies  # number of nested blocks (compound)
        self.loop = loop  # bodies[0] is a loop body
        self.needs_loop = needs_loop
        self.tier = tier
        self.body_heads = body_heads or []  # lines introducing body 2.. (else:, except .. as {n2}:, finally:)

    def instantiate(self, ctx):
        text = "\n".join(self.lines + self.body_heads)
        nn = max([int(text[i + 2]) for i in range(len(text) - 2) if text[i:i + 2] in ("{n", "{N") and text[i + 2].isdigit()] or [0])
        ne = max([int(text[i + 2]) for i in range(len(text) - 2) if text[i:i + 2] == "{e" and text[i + 2].isdigit()] or [0])
        names, ctx = _new(ctx, nn)
        eids, ctx = _eids(ctx, ne)
        env = {"p": ctx.cur}
        for i, n in enumerate(names):
            env[f"n{i + 1}"] = n
            env[f"N{i + 1}"] = "K" + n
        for i, e in enumerate(eids):
            env[f"e{i + 1}"] = e
        lines = [ln.format(**env) for ln in self.lines]
        heads = [ln.format(**env) for ln in self.body_heads]
        cur_after = env[self.cur] if self.cur else ctx.cur
        ctx = ctx._replace(flags=ctx.flags | self.flags)
        return lines, heads, ctx, cur_after


S = Form
SIMPLE = [
    S("assign", "{n1} = E({e1}, {p})", cur="n1"),
    S("chain", "{n1} = {n2} = E({e1}, {p})", cur="n2"),
    S("aug", "{p} += E({e1}, 1)"),
    S("aug-alias", ["{n1} = [E({e1}, {p})]", "{n2} = {n1}", "{n1} += [E({e2}, 1)]", "{n3} = len({n2})"], cur="n3"),
    S("chain-unpack-first", "{n1}, {n2} = {n3} = PAIR(E({e1}, {p}))", cur="n2"),
    S("chain-unpack-last", "{n3} = {n1}, {n2} = PAIR(E({e1}, {p}))", cur="n2"),
    S("shadowed-builtin", "{n1} = abs(E({e1}, {p}))", cur="n1"),
    S("ann", "{n1}: int = E({e1}, {p})", cur="n1"),
    S("walrus", "E({e1}, ({n1} := E({e2}, {p})))", cur="n1"),
    S("unpack-tuple", "{n1}, {n2} = PAIR(E({e1}, {p}))", cur="n2"),
    S("unpack-list-src", "{n1}, {n2} = LST(E({e1}, {p}))", cur="n2"),
    S("unpack-gen", "{n1}, {n2} = GEN(E({e1}, {p}))", cur="n2"),
    S("unpack-dict", "{n1}, {n2} = DCT(E({e1}, {p}))", cur="n2"),
    S("unpack-set", "{n1}, {n2} = SET(E({e1}, {p}))", cur="n2", tier="thorough"),
    S("unpack-str", "{n1}, {n2} = STR(E({e1}, {p}))", cur="n1", tier="thorough"),
    S("unpack-iter", "{n1}, {n2} = ITER(E({e1}, {p}))", cur="n2"),
    S("unpack-long", "{n1}, {n2} = TRIPLE(E({e1}, {p}))", cur="n2"),
    S("unpack-short", "{n1}, {n2} = ONE(E({e1}, {p}))", cur="n2", tier="thorough"),
    S("unpack-nested", "({n1}, {n2}), {n3} = NEST(E({e1}, {p}))", cur="n3"),
    S("unpack-star", "{n1}, *{n2} = TRIPLE(E({e1}, {p}))", cur="n1"),
    S("unpack-listtarget", "[{n1}, {n2}] = PAIR(E({e1}, {p}))", cur="n2"),
    S("unpack-attr", "o.at, {n1} = PAIR(E({e1}, {p}))", cur="n1", flags=["o"], tier="thorough"),
    S("attr", "o.at = E({e1}, {p})", flags=["o"]),
    S("attr-aug", "o.at += E({e1}, {p})", flags=["o"]),
    S("sub", "d[E({e1}, 'k')] = E({e2}, {p})", flags=["d"]),
    S("sub-aug", "d['n'] += E({e1}, {p})", flags=["d"], tier="thorough"),
    S("del", "del {p}"),
    S("import", ["import pvm", "{n1} = pvm.val + E({e1}, {p})"], cur="n1"),
    S("import-as", ["import pvm as {n1}", "{n2} = {n1}.val + E({e1}, {p})"], cur="n2"),
    S("from-import", ["from pvm import val", "{n1} = val + E({e1}, {p})"], cur="n1"),
    S("from-import-as", "from pvm import val as {n1}", cur="n1"),
    S("import-dotted", ["import pvpkg.sub", "{n1} = pvpkg.sub.val + E({e1}, {p})"], cur="n1"),
    S("def", ["def {n1}(u):", "    return u + E({e1}, {p})", "{n2} = {n1}(1)"], cur="n2"),
    S("def-rebind", ["def {p}(u):", "    return u + E({e1}, 1)"]),
    S("async-def", ["async def {n1}(u):", "    w = u", "    return w", "{n2} = E({e1}, {p})"], cur="n2"),
    S("self-read", "{n1} = E({e1}, f is not None)", cur="n1"),
    S("import-as-cur", "import pvm as {p}"),
    S("def-nonlocal", ["def {n1}():", "    nonlocal {p}", "    {p} += E({e1}, 1)", "{n1}()"]),
    S("lambda", "{n1} = (lambda u: u + {p})(E({e1}, 1))", cur="n1"),
    S("listcomp", "{n1} = sum([u + {p} for u in R(E({e1}, 2))])", cur="n1"),
    S("setcomp", "{n1} = sum({{u + {p} for u in R(E({e1}, 2))}})", cur="n1", tier="thorough"),
    S("dictcomp", "{n1} = sum({{u: u + {p} for u in R(E({e1}, 2))}}.values())", cur="n1", tier="thorough"),
    S("genexp", "{n1} = sum(u + {p} for u in R(E({e1}, 2)))", cur="n1"),
    S("comp-walrus", "{n1} = sum([({n2} := u + {p}) for u in R(E({e1}, 2))])", cur="n2"),
    S("class", ["class {N1}:", "    at = E({e1}, {p})", "{n2} = {N1}.at"], cur="n2"),
    S("expr", "E({e1}, {p})"),
    # (f itself does not read G afterwards: ptera documents that globals are read at entry)
    S("class-global", ["class {N1}:", "    global G", "    G = E({e1}, {p})"]),
    S("aug-walrus", "{p} += ({n1} := E({e1}, 1))", cur="n1"),
    S("unpack-walrus", "{n1}, {n2} = ({n3} := E({e1}, {p})), E({e2}, {p})", cur="n2"),
    S("chain-walrus", "{n1} = {n2} = ({n3} := E({e1}, {p})) + 1", cur="n2"),
    S("aug-yield", "{p} += (yield E({e1}, {p})) or 1", gen=True),
    S("assert", "assert E({e1}, {p}) != 1, E({e2}, 'boom')"),
    S("global-write", ["global G", "G = E({e1}, {p})"]),
    S("global-read", "{n1} = G + E({e1}, {p})", cur="n1"),
    S("nonlocal-write", ["nonlocal c", "c = E({e1}, {p})"], flags=["closure"]),
    S("closure-read", "{n1} = c + E({e1}, {p})", cur="n1", flags=["closure"]),
    S("return", "return E({e1}, {p})"),
    S("return-bare", "return"),
    S("return-walrus", "return ({n1} := E({e1}, {p}))"),
    S("raise", "raise ERR(E({e1}, {p}))"),
    S("raise-base", "raise BERR(E({e1}, {p}))"),
    S("yield", "yield E({e1}, {p})", gen=True),
    S("yield-recv", "{n1} = yield E({e1}, {p})", cur="n1", gen=True),
    S("yield-bare", "yield", gen=True, tier="thorough"),
    S("yield-from", "{n1} = yield from SUBGEN(E({e1}, {p}))", cur="n1", gen=True),
    # C16 only: declared-only variables and maybe-undefined globals
    S("declare", "{n1}: int", special=True),
    S("declare-use", ["{n1}: int", "{n2} = E({e1}, {n1})"], cur="n2", special=True),
    S("declare-tagged", ["{n1}: tag.A", "{n2} = E({e1}, {n1})"], cur="n2", special=True),
    S("declare-attr", ["o.at: int", "{n1} = E({e1}, o.at)"], cur="n1", flags=["o"], special=True),
    S("undef-read", "{n1} = E({e1}, UNDEF)", cur="n1", special=True),
    S("late-read", "{n1} = LATER + E({e1}, {p})", cur="n1", special=True),
    # "odd" menu (program set `odd` of the E1 properties): rarely used forms and positions
    S("none-global-read", "{n1} = E({e1}, GNONE)", cur="n1", special=True),
    # a string literal whose continuation line is indented at least as much as the (indented) def statement
    S("multiline-str", ['{n1} = E({e1}, """first', '            second""")'], cur=None, flags=["closure"], special=True),
    # Python never evaluates the annotation of a local variable (e.g. a name imported under TYPE_CHECKING only)
    S("ann-undefined", "{n1}: OnlyForTypeCheckers = E({e1}, {p})", cur="n1", special=True),
    # assignment expressions evaluated by f in places that are easy to overlook
    S("sub-index-walrus", "d[({n1} := E({e1}, 'k'))] = E({e2}, {p})", flags=["d"], special=True),
    S("default-walrus", ["def {n1}(u=({n2} := E({e1}, {p}))):", "    return u", "{n3} = {n1}()"], cur="n3", special=True),
    S("class-base-walrus", ["class {N1}(({n1} := E({e1}, object))):", "    pass", "{n2} = E({e2}, {n1} is object)"], cur=None, special=True),
    # a lambda is a scope of its own: its walrus binds the lambda's variable, its yield makes the lambda a generator
    S("lambda-walrus", "{n1} = (lambda: ({p} := E({e1}, 5)))()", cur="n1", special=True),
    S("lambda-yield", "{n1} = list((lambda: (yield E({e1}, {p})))())", cur=None, special=True),
    # the annotation of a local is never evaluated by Python: evaluating it here would raise AttributeError
    S("ann-raises", "{n1}: GNONE.nope = E({e1}, {p})", cur="n1", special=True),
    S("declare-ann-raises", ["{n1}: GNONE.nope", "{n2} = E({e1}, {n1})"], cur="n2", special=True),
    # the qualified names of what f defines (f itself is defined in a factory)
    S("nested-qualname", ["def {n1}(u):", "    return u", "class {N2}:", "    pass",
                          "{n3} = E({e1}, ({n1}.__qualname__, {N2}.__qualname__, (lambda: 0).__qualname__))"], cur=None, flags=["closure"], special=True),
    # match statements: the names captured by patterns (sequence, star, mapping rest, as, bare capture, guard)
    S("match-seq", ["match PAIR(E({e1}, {p})):", "    case ({n1}, {n2}):", "        {n3} = E({e2}, {n1})", "    case _:", "        {n3} = E({e3}, 0)"], cur="n3", special=True),
    S("match-guard", ["match PAIR(E({e1}, {p})):", "    case ({n1}, {n2}) if E({e2}, {n1}) % 2:", "        {n3} = E({e3}, {n2})", "    case [{n1}, *{n2}]:", "        {n3} = E({e4}, {n1})"], cur="n3", special=True),
    S("match-as", ["match E({e1}, {p}):", "    case 0 | 1 as {n1}:", "        {n2} = E({e2}, {n1})", "    case {n1}:", "        {n2} = E({e3}, {n1})"], cur="n2", special=True),
    S("match-mapping", ["match DCT(E({e1}, {p})):", "    case {{**{n1}}}:", "        {n2} = E({e2}, len({n1}))"], cur="n2", special=True),
    S("mangled-read", "{n1} = E({e1}, K.__hid + {p})", cur="n1", flags=["inclass"], special=True),
    S("mangled-read-under", "{n1} = E({e1}, _K.__hid + {p})", cur="n1", flags=["inclass", "under"], special=True),
    S("mangled-read-nested", "{n1} = E({e1}, K.__hid + {p})", cur="n1", flags=["inclass", "nested"], special=True),
    S("weird-eq", "{n1} = NOEQ(E({e1}, {p}))", special=True),
    S("return-yield", "return (yield E({e1}, {p}))", gen=True, special=True),
    S("arg-yield", "E({e1}, (yield E({e2}, {p})))", gen=True, special=True),
    S("assert-yield", "assert (yield E({e1}, {p})) != 5, E({e2}, 'boom')", gen=True, special=True),
    S("sub-index-yield", "d[(yield E({e1}, 'k')) or 'k'] = E({e2}, {p})", flags=["d"], gen=True, special=True),
    S("default-yield", ["def {n1}(u=(yield E({e1}, {p}))):", "    return u", "{n2} = {n1}()"], cur="n2", gen=True, special=True),
    S("ann-yield", "{n1}: int = (yield E({e1}, {p}))", cur="n1", gen=True, special=True),
    S("attr-yield", "o.at = (yield E({e1}, {p}))", flags=["o"], gen=True, special=True),
    S("break", "break", needs_loop=True),
    S("continue", "continue", needs_loop=True),
]


COMPOUND = [
    S("if", "if E({e1}, {p}) % 2:", bodies=1),
    S("if-else", "if E({e1}, {p}) % 2:", bodies=2, body_heads=["else:"]),
    S("if-walrus", "if ({n1} := E({e1}, {p})) % 2:", bodies=1, cur="n1"),
    S("for", "for {n1} in R(E({e1}, {p})):", bodies=1, loop=True),
    S("for-else", "for {n1} in R(E({e1}, {p})):", bodies=2, loop=True, body_heads=["else:"]),
    S("for-tuple", "for {n1}, {n2} in PAIRS(E({e1}, {p})):", bodies=1, loop=True),
    S("for-star", "for {n1}, *{n2} in PAIRS(E({e1}, {p})):", bodies=1, loop=True, tier="thorough"),
    S("while", "while T({e1}, {p}):", bodies=1, loop=True),
    S("while-walrus", "while ({n1} := T({e1}, {p})):", bodies=1, loop=True),
    S("try-except", "try:", bodies=2, body_heads=["except ERR as {n1}:"]),
    S("try-except-noname", "try:", bodies=2, body_heads=["except ERR:"]),
    S("try-except-cur", "try:", bodies=2, body_heads=["except ERR as {p}:"], tier="thorough"),
    S("try-finally", "try:", bodies=2, body_heads=["finally:"]),
    S("try-except-else", "try:", bodies=3, body_heads=["except ERR as {n1}:", "else:"], tier="thorough"),
    S("with", "with CM(E({e1}, {p})) as {n1}:", bodies=1),
    S("with-tuple", "with CM2(E({e1}, {p})) as ({n1}, {n2}):", bodies=1),
    S("with-noas", "with CM(E({e1}, {p})):", bodies=1),
    S("with-two", "with CM(E({e1}, {p})) as {n1}, CM(E({e2}, {p})) as {n2}:", bodies=1, cur="n2"),
    S("while-else", "while T({e1}, {p}):", bodies=2, loop=True, body_heads=["else:"]),
    S("try-except-finally", "try:", bodies=3, body_heads=["except ERR as {n1}:", "finally:"], tier="thorough"),
    S("with-swallow", "with SWALLOW(E({e1}, {p})) as {n1}:", bodies=1, tier="thorough"),
    S("try-nameerror", "try:", bodies=2, body_heads=["except NameError:"], special=True),
    S("for-list-target", "for [{n1}, {n2}] in PAIRS(E({e1}, {p})):", bodies=1, loop=True, special=True),
    S("with-list-target", "with CM2(E({e1}, {p})) as [{n1}, {n2}]:", bodies=1, special=True),
    S("for-yield-iter", "for {n1} in (yield E({e1}, {p})) or R(1):", bodies=1, loop=True, gen=True, special=True),
    S("while-yield-test", "while (yield E({e1}, {p})):", bodies=1, loop=True, gen=True, special=True),
    S("if-yield-test", "if (yield E({e1}, {p})):", bodies=1, gen=True, special=True),
    S("with-two-dep", "with CM(E({e1}, {p})) as {n1}, CM(E({e2}, {n1})) as {n2}:", bodies=1, cur="n2", special=True),
    S("with-yield-item", "with CM((yield E({e1}, {p}))) as {n1}:", bodies=1, gen=True, special=True),
]
# thorough tier: programs of three nodes are enumerated over this core menu (the full menu at three nodes
# is ~470 000 programs, hours per property); the full menu is enumerated at two nodes
CORE3 = frozenset({"assign", "chain", "aug", "unpack-tuple", "unpack-star", "attr", "sub", "walrus", "import", "def",
                   "lambda", "listcomp", "class", "global-write", "closure-read", "return", "raise", "yield",
                   "yield-recv", "if", "if-else", "for", "for-else", "while", "try-except", "try-finally", "with",
                   "break", "continue", "del"})
# the `odd` program set: every program contains at least one of ODD, the rest comes from ODD_BASE
ODD = frozenset({"none-global-read", "weird-eq", "multiline-str", "mangled-read", "mangled-read-nested", "mangled-read-under", "ann-raises", "nested-qualname",
                 "match-seq", "match-guard", "match-as", "match-mapping", "sub-index-walrus", "default-walrus",
                 "class-base-walrus", "lambda-walrus", "lambda-yield", "with-two-dep", "return-yield", "arg-yield", "assert-yield", "sub-index-yield",
                 "default-yield", "ann-yield", "attr-yield", "for-list-target", "with-list-target", "for-yield-iter",
                 "while-yield-test", "if-yield-test", "with-yield-item"})
ODD_BASE = ODD | frozenset({"assign", "aug", "for", "if", "try-finally", "try-except", "yield-recv", "return", "raise", "break"})
FORMS = {f.name: f for f in SIMPLE + COMPOUND}


def _allowed(form, ctx, tier, only):
    if only is not None and form.name not in only:
        return False
    if form.special and only is None:
        return False
    if form.tier == "thorough" and tier != "thorough" and only is None:
        return False
    if form.needs_loop and not ctx.loop:
        return False
    return True


def blocks(ctx, budget, tier, only=None, depth=0, maxdepth=2, minsize=1):
    """Yield (lines, ctx, forms_used, size) for every statement sequence of minsize..budget nodes."""
    if minsize <= 0:
        yield [], ctx, (), 0
    if budget <= 0:
        return
    for lines, c2, forms, used in statements(ctx, budget, tier, only, depth, maxdepth):
        for rest, c3, forms2, used2 in blocks(c2, budget - used, tier, only, depth, maxdepth, minsize=0):
            yield lines + rest, c3, forms + forms2, used + used2


def statements(ctx, budget, tier, only, depth, maxdepth):
    """Yield (lines, ctx, forms, size) for every single statement of size <= budget."""
    for form in SIMPLE:
        if _allowed(form, ctx, tier, only):
            lines, _, c2, cur_after = form.instantiate(ctx)
            yield lines, c2._replace(cur=cur_after), (form.name,), 1
    if budget < 2 or depth >= maxdepth:
        return
    for form in COMPOUND:
        if not _allowed(form, ctx, tier, only):
            continue
        head, heads, c2, cur_after = form.instantiate(ctx)
        # body 1 sees names bound by the head (loop target, walrus); later bodies see the except name
        inner0 = c2._replace(cur=cur_after if form.name in ("for", "for-else", "if-walrus", "while-walrus", "with", "with-swallow", "with-two", "for-yield-iter", "with-yield-item", "with-two-dep") else c2.cur,
                             loop=ctx.loop or form.loop)

        def fill(k, cstart, left):
            # yields (list of bodies, ctx, forms, used)
            if k == form.bodies:
                yield [], cstart, (), 0
                return
            need_after = form.bodies - k - 1
            inner = cstart._replace(loop=(ctx.loop or form.loop) if k == 0 else ctx.loop)
            if k == 0:
                inner = inner._replace(cur=inner0.cur)
            for blines, c3, forms, used in blocks(inner, left - need_after, tier, only, depth + 1, maxdepth, minsize=1):
                for rest, c4, forms2, used2 in fill(k + 1, c3._replace(cur=c2.cur), left - used):
                    yield [blines] + rest, c4, forms + forms2, used + used2

        for bodies, c5, forms, used in fill(0, c2, budget - 1):
            lines = list(head)
            for i, b in enumerate(bodies):
                if i > 0:
                    lines.append(heads[i - 1])
                lines += ["    " + ln for ln in b]
            # after a compound statement the chain continues from the value that was current before it
            yield lines, c5._replace(cur=c2.cur, loop=ctx.loop), (form.name,) + forms, 1 + used


SIGNATURES = {
    # name -> (parameter list, docstring?)   (how they are called: progspace.call_args)
    "rich": ("x, /, y=2, *rest, k=3, **kw", False),
    "kwonly": ("x, *, k=3", False),
    "doc": ("x", True),
    # defined in a factory; a default value refers to a local of the factory
    "closure-default": ("x, y=kk", False),
    # an annotation refers to a local of the factory
    "closure-annot": ("x: kt, y: kt = 2", False),
}


def render(lines, flags, tail=True, sig=None):
    params = ["x"]
    if "o" in flags:
        params.append("o")
    if "d" in flags:
        params.append("d")
    body = ["    " + ln for ln in lines] + (["    return E(99, SNAP(locals()))"] if tail else [])
    plist = ", ".join(params)
    if sig:
        plist, doc = SIGNATURES[sig]
        if doc:
            body = ['    """A docstring, which ptera keeps outside the instrumented block."""'] + body
    fn = [f"def f({plist}):"] + body
    # the closure variable c is shared with two sibling closures: POKE rebinds it after f was defined
    # (and instrumented), PEEK shows what f's own `nonlocal` writes did to the shared variable
    share = ("    def peek():\n        return c\n    def poke(v):\n        nonlocal c\n        c = v\n"
             "    f.PEEK, f.POKE = peek, poke\n")
    if sig in ("closure-default", "closure-annot"):
        return "def make(c):\n    kk = 3\n    kt = int\n" + "\n".join("    " + ln for ln in fn) + "\n" + share + "    return f\nf = make(10)\n"
    if "inclass" in flags:
        # f is defined in a class body: identifiers of the form __name inside it are mangled by the compiler
        if "under" in flags:
            # the class name starts with an underscore (the mangled prefix drops it)
            return "class _K:\n    __hid = 40\n" + "\n".join("    " + ln for ln in fn) + "\nf = _K.f\n"
        if "nested" in flags:
            # ... also when f is a function nested in a function of the class
            return ("class K:\n    __hid = 40\n    def make():\n" + "\n".join("        " + ln for ln in fn)
                    + "\n        return f\nf = K.make()\n")
        return "class K:\n    __hid = 40\n" + "\n".join("    " + ln for ln in fn) + "\nf = K.f\n"
    if "closure" in flags:
        src = "def make(c):\n" + "\n".join("    " + ln for ln in fn) + "\n" + share + "    return f\nf = make(10)\n"
    else:
        src = "\n".join(fn) + "\n"
    return src


EXTRAS = [
    # hand-written boundary programs that the statement enumeration cannot produce (empty bodies)
    ("doc-only", 'def f(x):\n    """Only a docstring."""\n'),
    ("pass-only", "def f(x):\n    pass\n"),
    ("doc-and-pass", 'def f(x):\n    """A docstring."""\n    pass\n'),
    ("ellipsis-only", "def f(x):\n    ...\n"),
    ("gen-empty", "def f(x):\n    return\n    yield\n"),
]


def extra_programs():
    for name, src in EXTRAS:
        fl = frozenset({"gen"}) if "yield" in src else frozenset()
        yield Prog(src, ("extra-" + name,), fl, 0)


def programs(size, tier, only=None, maxdepth=2, must=None, tails=(True,), sigs=(None,)):
    """Every program with 1..size nodes.  `only`: restrict the menu; `must`: a form that has to occur;
    tails: with the final `return E(99, SNAP(locals()))` (True) and/or falling off the end (False);
    sigs: signature variants (None = plain `def f(x)`), only for programs without the o/d arguments."""
    ctx0 = Ctx(0, 0, "x", frozenset(), False)
    for lines, ctx, forms, used in blocks(ctx0, size, tier, only, 0, maxdepth):
        if must is not None and not (set(forms) & must):
            continue
        for tail in tails:
            for sig in sigs:
                if sig and (ctx.flags & {"o", "d"}):
                    continue
                if sig in ("closure-default", "closure-annot") and "closure" in ctx.flags:
                    continue
                if "inclass" in ctx.flags and (sig or "closure" in ctx.flags):
                    continue
                if len(ctx.flags & {"under", "nested"}) == 2 or (ctx.flags & {"under", "nested"} and "mangled-read" in forms):
                    continue  # one placement per program
                fl = ctx.flags | ({"sig:" + sig} if sig else set()) | ({"closure"} if sig in ("closure-default", "closure-annot") else set())
                fm = forms + (() if tail else ("fall-off-end",)) + (("sig-" + sig,) if sig else ())
                yield Prog(render(lines, ctx.flags, tail, sig), fm, frozenset(fl), used)

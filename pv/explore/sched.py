"""E4 - stateless, preemption-bounded schedule exploration of real threads (iterative context bounding).

Real `threading.Thread`s run the real ptera code.  A `sys.settrace` hook turns `line` events (and
`opcode` events in the listed critical functions) inside the *visible* functions - the ones that
touch state shared between threads - into scheduling points.  Exactly one thread runs at any time
(a baton of per-thread semaphores); at every point the scheduler decides who continues: the
recorded choice while replaying a prefix, otherwise the running thread (or the lowest enabled id).
A switch away from a thread that could have continued costs one preemption.

Locks: if the library uses `threading.Lock/RLock` objects (listed by the harness), they are replaced
by cooperative locks whose acquire is a scheduling point with enabledness; no enabled thread while
some thread is unfinished is reported as a deadlock.
"""
import sys
import threading
import traceback


class ReplayDivergence(Exception):
    """A recorded schedule could not be replayed: the harness does not own all nondeterminism."""


class Deadlock(Exception):
    pass


CURRENT = [None]  # the Execution that is running (locks created by the library outlive one execution)


class ThreadingProxy:
    """Stands in for the `threading` module inside the library's modules: locks the library creates
    while it runs (per-object locks) are cooperative locks too."""

    def __init__(self, real):
        self._real = real
        self._n = 0

    def __getattr__(self, name):
        return getattr(self._real, name)

    def _make(self, kind):
        self._n += 1
        return CoopLock(None, f"{kind}#{self._n} created by the library")

    def Lock(self):
        return self._make("Lock")

    def RLock(self):
        return self._make("RLock")


class CoopLock:
    """Re-entrant cooperative lock driven by the scheduler."""

    def __init__(self, sched, name):
        self._sched = sched
        self.name = name
        self.owner = None
        self.depth = 0

    @property
    def sched(self):
        return CURRENT[0] if CURRENT[0] is not None else self._sched

    def acquire(self, blocking=True, timeout=-1):
        s = self.sched
        if s is None:
            self.owner, self.depth = "outside", self.depth + 1
            return True
        tid = s.current_tid()
        if tid is None:  # not one of the scheduled threads (setup / teardown code)
            self.owner, self.depth = "outside", self.depth + 1
            return True
        s.point(tid, ("lock-acquire", self.name, 0), kind="lock")
        while self.owner is not None and self.owner != tid:
            s.block(tid, self)
        self.owner = tid
        self.depth += 1
        return True

    def release(self):
        self.depth -= 1
        if self.depth <= 0:
            self.depth = 0
            self.owner = None
            if self.sched is not None:
                self.sched.unblock(self)

    __enter__ = acquire

    def __exit__(self, *a):
        self.release()


class Execution:
    """One controlled run of n thread bodies under a given choice prefix."""

    def __init__(self, bodies, prefix, visible, opcode_codes=(), max_points=20000, entry_files=()):
        self.bodies = bodies
        self.n = len(bodies)
        self.prefix = list(prefix)
        self.visible = visible            # set of code objects
        self.opcode_codes = opcode_codes  # subset traced at opcode granularity
        self.entry_files = set(entry_files)  # files whose functions get one point at every entry / resumption
        self.points = []                  # (running tid, enabled tuple, location, choice)
        self.sems = [threading.Semaphore(0) for _ in range(self.n)]
        self.done = [False] * self.n
        self.blocked = [None] * self.n
        self.errors = [None] * self.n
        self.results = [None] * self.n
        self.tids = {}
        self.finished = threading.Semaphore(0)
        self.max_points = max_points
        self.fatal = None
        self.running = None

    # ---- scheduler core (always executed by the one running thread)
    def current_tid(self):
        return self.tids.get(threading.get_ident())

    def enabled(self):
        return [t for t in range(self.n) if not self.done[t] and self.blocked[t] is None]

    def decide(self, tid, loc, kind):
        en = self.enabled()
        i = len(self.points)
        if not en:
            raise Deadlock(f"no enabled thread at point {i}: blocked={self.blocked}")
        if kind == "handoff":
            # a voluntary yield written in the harness body: by default the next other thread runs
            others = [t for t in en if t != tid]
            default = min(others, key=lambda t: (t - tid) % self.n) if others else tid
        else:
            default = tid if tid in en else en[0]
        if i < len(self.prefix):
            choice = self.prefix[i]
            if choice not in en:
                raise ReplayDivergence(f"point {i}: recorded choice {choice} is not enabled ({en}) at {loc}")
        else:
            choice = default
        self.points.append((tid, tuple(en), loc, choice, kind, default))
        if len(self.points) > self.max_points:
            raise ReplayDivergence("execution exceeds the point budget (livelock?)")
        return choice

    def switch(self, tid, choice):
        if choice != tid:
            self.running = choice
            self.sems[choice].release()
            self.sems[tid].acquire()

    def point(self, tid, loc, kind="line"):
        if self.fatal:
            return
        try:
            choice = self.decide(tid, loc, kind)
        except (ReplayDivergence, Deadlock) as e:
            self.fatal = e
            self._abort(tid)
            return
        self.switch(tid, choice)

    def handoff(self, label=""):
        """Voluntary scheduling point for harness bodies (switching here is not a preemption)."""
        tid = self.current_tid()
        if tid is not None:
            self.point(tid, ("handoff", label, 0), kind="handoff")

    def block(self, tid, lock):
        """tid cannot proceed: hand the baton to somebody else (not a preemption)."""
        self.blocked[tid] = lock
        en = self.enabled()
        if not en:
            self.fatal = Deadlock(f"all unfinished threads are blocked: {[(t, getattr(b, 'name', b)) for t, b in enumerate(self.blocked)]}")
            self._abort(tid)
            return
        try:
            choice = self.decide(tid, ("blocked-on", lock.name, 0), "blocked")
        except (ReplayDivergence, Deadlock) as e:
            self.fatal = e
            self._abort(tid)
            return
        self.switch(tid, choice)

    def unblock(self, lock):
        for t in range(self.n):
            if self.blocked[t] is lock:
                self.blocked[t] = None

    def _abort(self, tid):
        # let every thread run freely to the end (no more scheduling); results are discarded
        for t in range(self.n):
            self.blocked[t] = None
            if t != tid:
                self.sems[t].release()

    # ---- tracing
    def _global_trace(self, frame, event, arg):
        if event != "call":
            return None
        code = frame.f_code
        if code in self.visible:
            if code in self.opcode_codes:
                frame.f_trace_opcodes = True
            return self._local_trace
        if code.co_filename in self.entry_files:
            # the frame exists (for whatever code was installed when the call was made) but none of
            # its instructions has run yet
            tid = self.tids.get(threading.get_ident())
            if tid is not None and not self.fatal:
                self.point(tid, ("entry:" + code.co_name, code.co_firstlineno, 0), "line")
        return None

    def _local_trace(self, frame, event, arg):
        if event == "line" or event == "opcode":
            tid = self.tids.get(threading.get_ident())
            if tid is not None and not self.fatal:
                code = frame.f_code
                self.point(tid, (code.co_name, frame.f_lineno, frame.f_lasti if event == "opcode" else 0), event)
        return self._local_trace

    # ---- threads
    def _thread_main(self, tid):
        self.tids[threading.get_ident()] = tid
        self.sems[tid].acquire()
        sys.settrace(self._global_trace)
        try:
            self.results[tid] = self.bodies[tid]()
        except BaseException as e:
            self.errors[tid] = (type(e).__name__, str(e)[:300], traceback.format_exc()[-1500:])
        finally:
            sys.settrace(None)
            self.done[tid] = True
            if self.fatal:
                self.finished.release()
                return
            en = self.enabled()
            if en:
                try:
                    choice = self.decide(tid, ("thread-end", tid, 0), "end")
                except (ReplayDivergence, Deadlock) as e:
                    self.fatal = e
                    self._abort(tid)
                    self.finished.release()
                    return
                self.running = choice
                self.sems[choice].release()
            elif not all(self.done):
                self.fatal = Deadlock(f"thread {tid} ended and the remaining threads are blocked: {self.blocked}")
                self._abort(tid)
            self.finished.release()

    def run(self, first=0, timeout=60):
        CURRENT[0] = self
        try:
            return self._run(first, timeout)
        finally:
            CURRENT[0] = None

    def _run(self, first=0, timeout=60):
        threads = [threading.Thread(target=self._thread_main, args=(t,), daemon=True) for t in range(self.n)]
        for th in threads:
            th.start()
        # the first decision: who starts
        try:
            choice = self.decide(first, ("start", 0, 0), "start")
        except (ReplayDivergence, Deadlock) as e:
            self.fatal = e
            choice = first
            self._abort(None)
        self.running = choice
        self.sems[choice].release()
        for _ in range(self.n):
            if not self.finished.acquire(timeout=timeout):
                self.fatal = self.fatal or Deadlock("timeout waiting for the threads (harness hang)")
                self._abort(None)
                break
        for th in threads:
            th.join(timeout=5)
        return self

    # ---- derived
    def choices(self):
        return [p[3] for p in self.points]

    def preemptions_before(self, i):
        c = 0
        # a deviation from the default continuation at a line/opcode/lock/handoff point costs one
        for tid, en, loc, choice, kind, default in self.points[:i]:
            if choice != default and kind not in ("start", "end", "blocked"):
                c += 1
        return c


def alternatives(x, start, bound, region=None, region_bound=None):
    """Prefixes that deviate from execution x at one point >= start, within the preemption bound.
    region(loc) -> True marks critical points that may use the larger region_bound."""
    out = []
    for i in range(start, len(x.points)):
        tid, en, loc, choice, kind, default = x.points[i]
        if kind in ("end", "blocked") and len(en) < 2:
            continue
        before = x.preemptions_before(i)
        for alt in en:
            if alt == choice:
                continue
            cost = before + (1 if (alt != default and kind not in ("start", "end", "blocked")) else 0)
            limit = bound
            if region is not None and region_bound is not None and region(loc):
                limit = max(bound, region_bound)
            if cost <= limit:
                out.append(x.choices()[:i] + [alt])
    return out

"""E2 - call-tree explorer: labelled ordered call trees realised by three generic functions.

A tree node is (label, kids, raises).  Calling the root realises exactly that dynamic call tree:
each function binds p, calls its kids in order through the un-instrumented helper CALL (which
records the activation and absorbs the ERR raised by a raising node), optionally raises, binds q,
then binds p a second time (so a focus variable is bound before and after the nested calls).
Node ids are assigned in call (pre-)order; values are unique: p = 10*id then 10*id + 2, q = 10*id + 1.
"""
import itertools

from pv.core import world

SRC = '''
TRACE = []
class ERR(Exception):
    pass

class Node:
    __slots__ = ("id", "label", "kids", "raises")
    def __init__(self, id, label, kids, raises):
        self.id, self.label, self.kids, self.raises = id, label, kids, raises

def BIND(node, var, k=0):
    val = node.id * 10 + (k if var == "p" else 1)
    TRACE.append(("bind", node.id, var, val))
    return val

def CALL(k, parent=None):
    TRACE.append(("enter", k.id, k.label, parent))
    try:
        ret = FUNCS[k.label](k)
    except ERR:
        TRACE.append(("exit", k.id, "raise"))
    else:
        TRACE.append(("bind", k.id, "#value", ret))
        TRACE.append(("exit", k.id, "return"))

def A(node):
    p = BIND(node, "p")
    for k in node.kids:
        CALL(k, node.id)
    if node.raises:
        raise ERR(node.id)
    q = BIND(node, "q")
    p = BIND(node, "p", 2)
    return q

def B(node):
    p = BIND(node, "p")
    for k in node.kids:
        CALL(k, node.id)
    if node.raises:
        raise ERR(node.id)
    q = BIND(node, "q")
    p = BIND(node, "p", 2)
    return q

def C(node):
    p = BIND(node, "p")
    for k in node.kids:
        CALL(k, node.id)
    if node.raises:
        raise ERR(node.id)
    q = BIND(node, "q")
    p = BIND(node, "p", 2)
    return q

FUNCS = {"A": A, "B": B, "C": C}
'''

LABELS = "ABC"


def shapes(n):
    """All ordered rooted trees with n nodes, as nested tuples of children."""
    if n == 1:
        return [()]
    out = []
    # forests of total size n-1
    def forests(m):
        if m == 0:
            yield ()
            return
        for first in range(1, m + 1):
            for t in shapes(first):
                for rest in forests(m - first):
                    yield (t,) + rest
    return list(forests(n - 1))


_SHAPES = {}


def all_shapes(n):
    if n not in _SHAPES:
        _SHAPES[n] = shapes(n)
    return _SHAPES[n]


def count_nodes(shape):
    return 1 + sum(count_nodes(s) for s in shape)


def trees(max_nodes, labels=LABELS, raising=False):
    """Every labelled ordered tree with <= max_nodes nodes: (shape, labels tuple in preorder, raising id or None)."""
    for n in range(1, max_nodes + 1):
        for sh in all_shapes(n):
            for lab in itertools.product(labels, repeat=n):
                yield (sh, lab, None)
                if raising:
                    for r in range(n):
                        yield (sh, lab, r)


def describe(tree):
    sh, lab, r = tree
    it = iter(range(len(lab)))

    def rec(s):
        i = next(it)
        txt = lab[i] + str(i) + ("!" if r == i else "")
        if s:
            txt += "[" + ", ".join(rec(c) for c in s) + "]"
        return txt

    return rec(sh)


class TreeWorld:
    """One module with A, B, C; trees are run inside it."""

    def __init__(self):
        self.ns = world.make_module(SRC, pin=True)
        self.funcs = {k: self.ns[k] for k in LABELS}
        self.orig = {k: self.ns[k].__code__ for k in LABELS}

    def build(self, tree):
        sh, lab, r = tree
        Node = self.ns["Node"]
        counter = itertools.count()

        def rec(s):
            i = next(counter)
            node = Node(i, lab[i], None, r == i)
            node.kids = [rec(c) for c in s]
            return node

        return rec(sh)

    def run(self, tree):
        """Run the tree from its root; returns the recorded trace (list)."""
        tr = self.ns["TRACE"]
        del tr[:]
        root = self.build(tree)
        self.ns["CALL"](root, None)
        return list(tr)


def static_trace(tree):
    """The trace the tree must produce, computed from the data alone (cross-check of the runtime log)."""
    sh, lab, r = tree
    out = []
    counter = itertools.count()

    def rec(s, parent):
        i = next(counter)
        out.append(("enter", i, lab[i], parent))
        out.append(("bind", i, "p", i * 10))
        for c in s:
            rec(c, i)
        if r == i:
            out.append(("exit", i, "raise"))
        else:
            out.append(("bind", i, "q", i * 10 + 1))
            out.append(("bind", i, "p", i * 10 + 2))
            out.append(("bind", i, "#value", i * 10 + 1))
            out.append(("exit", i, "return"))

    rec(sh, None)
    return out

"""E3 - history explorer: explicit-state breadth-first search where a state is the operation
history that reaches it.  Live probes, generators and context-variable tokens cannot be copied, so
every expansion replays the history on a fresh world through the real API.

A `System` supplies:
    initial_model()                         -> model state (plain data)
    enabled(model)                          -> list of operations enabled in that model state
    step_model(model, op)                   -> (new model, expected output of the step)
    fresh()                                 -> a new world (real objects)
    apply(world, op)                        -> observed output of the step (exceptions are caught by the system)
    impl_key(world)                         -> canonical, hashable key of the implementation state
    model_key(model)                        -> hashable key of the model state
    invariant(world, model)                 -> list of problems (strings) in this state
    close(world)                            -> release the world (deactivate what is left)
"""
from collections import deque


class Result:
    def __init__(self):
        self.states = 0
        self.transitions = 0
        self.replayed_steps = 0
        self.max_depth = 0
        self.violations = []  # (kind, history, detail)
        self.merged = 0
        self.audit_pairs = 0
        self.audit_failures = []
        self.unexpanded_error_states = 0
        self.samples = []
        self.outcomes = {}


def run_history(system, history):
    """Replay a history on a fresh world, stepping the model in lock-step.
    Returns (world, model, first problem or None, index of the failing step)."""
    world = system.fresh()
    model = system.initial_model()
    for i, op in enumerate(history):
        model, expected = system.step_model(model, op)
        got = system.apply(world, op)
        if got != expected:
            return world, model, ("wrong-output", f"step {i} {op!r}: expected {expected!r}, observed {got!r}"), i
        probs = system.invariant(world, model)
        if probs:
            return world, model, ("invariant", f"after step {i} {op!r}: " + "; ".join(probs)), i
    return world, model, None, None


def first_ops(system, n=1):
    """All enabled operation sequences of length n from the initial state (to shard the search)."""
    out = [()]
    for _ in range(n):
        nxt = []
        for h in out:
            m = system.initial_model()
            for op in h:
                m, _ = system.step_model(m, op)
            nxt += [h + (op,) for op in system.enabled(m)]
        out = nxt
    return out


def explore(system, depth, audit_depth=0, max_states=None, prefix=()):
    """BFS from the state reached by `prefix` (default: the initial state) up to `depth` operations
    in total.  With a prefix, the prefix itself is executed and checked first."""
    res = Result()
    w0, m0, problem, at = run_history(system, tuple(prefix))
    if problem is not None:
        res.violations.append((problem[0], tuple(prefix), problem[1]))
        system.close(w0)
        return res
    k0 = (system.impl_key(w0), system.model_key(m0))
    system.close(w0)
    seen = {k0: tuple(prefix)}
    frontier = deque([tuple(prefix)])
    res.states = 1
    res.transitions = 1 if prefix else 0
    audit_bucket = {}
    while frontier:
        hist = frontier.popleft()
        if len(hist) >= depth:
            continue
        # the model state of this node
        model = system.initial_model()
        for op in hist:
            model, _ = system.step_model(model, op)
        for op in system.enabled(model):
            new_hist = hist + (op,)
            world, m2, problem, at = run_history(system, new_hist)
            res.transitions += 1
            res.replayed_steps += len(new_hist)
            if problem is not None:
                if at != len(new_hist) - 1:
                    # a prefix failed although it was explored without a problem: nondeterminism
                    res.violations.append(("harness-nondeterminism", new_hist, f"prefix failed at step {at}: {problem[1]}"))
                else:
                    res.violations.append((problem[0], new_hist, problem[1]))
                    res.unexpanded_error_states += 1
                system.close(world)
                continue
            key = (system.impl_key(world), system.model_key(m2))
            system.close(world)
            out_class = system.outcome_class(m2) if hasattr(system, "outcome_class") else len(new_hist)
            res.outcomes[out_class] = res.outcomes.get(out_class, 0) + 1
            if key in seen:
                res.merged += 1
                if len(new_hist) <= audit_depth:
                    audit_bucket.setdefault(key, [seen[key]]).append(new_hist)
                continue
            seen[key] = new_hist
            res.states += 1
            res.max_depth = max(res.max_depth, len(new_hist))
            if len(res.samples) < 4 and len(new_hist) >= min(depth, 3):
                res.samples.append([repr(o) for o in new_hist])
            if max_states and res.states >= max_states:
                res.capped = True
                return res
            frontier.append(new_hist)
    # merge audit: two different histories merged into one state must have the same one-step futures
    for key, hists in audit_bucket.items():
        rep = hists[0]
        for other in hists[1:3]:
            res.audit_pairs += 1
            model = system.initial_model()
            for op in rep:
                model, _ = system.step_model(model, op)
            for op in system.enabled(model):
                wa, ma, pa, _ = run_history(system, rep + (op,))
                ka = (system.impl_key(wa), system.model_key(ma)) if pa is None else ("problem", pa[0])
                system.close(wa)
                wb, mb, pb, _ = run_history(system, other + (op,))
                kb = (system.impl_key(wb), system.model_key(mb)) if pb is None else ("problem", pb[0])
                system.close(wb)
                if ka != kb:
                    res.audit_failures.append((rep, other, op))
    return res

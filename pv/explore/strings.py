"""E5 - string-space explorer: token strings, edit neighbours, exception classification."""
import itertools
import os
import traceback

import ptera

PTERA_DIR = os.path.dirname(os.path.abspath(ptera.__file__))

# Full alphabet: every operator the lexer knows, brackets the tower knows but the
# evaluator does not, one character outside the lexer, and one word of each operand kind.
WORDS = ["f", "g", "x", "y", "*", "#value", "#foo", "@A", "1", "'s'", "n", "K.m", "f.nope", "nope", "lt", "0", "1.2.3", "7up", "-1-2",
         "/nomod/f", "/os/nope", "/sys/f", "/.x/f"]
OPS = [">", "(", ")", ",", "!", "!!", "as", ":", "=", "~", "$", "[", "]", ">>", "{", "}", "%", "[[", "]]"]
FULL = WORDS + OPS
CORE = ["f", "x", "#value", "@A", ">", "(", ")", ",", "!", "as", ":", "=", "$", "*"]


def join(tokens):
    return " ".join(tokens)


def all_strings(alphabet, n):
    for k in range(0, n + 1):
        for t in itertools.product(alphabet, repeat=k):
            yield t


def neighbours(tokens, alphabet, swaps=True):
    """All edit-distance-1 neighbours of a token tuple (delete/insert/replace/swap)."""
    tokens = tuple(tokens)
    n = len(tokens)
    out = set()
    for i in range(n):
        out.add(tokens[:i] + tokens[i + 1 :])
        for a in alphabet:
            if a != tokens[i]:
                out.add(tokens[:i] + (a,) + tokens[i + 1 :])
    for i in range(n + 1):
        for a in alphabet:
            out.add(tokens[:i] + (a,) + tokens[i:])
    if swaps:
        for i in range(n - 1):
            out.add(tokens[:i] + (tokens[i + 1], tokens[i]) + tokens[i + 2 :])
    out.discard(tokens)
    return out


def innermost_ptera_frame(exc):
    """(function name, source line text, is an explicit raise statement) of the innermost frame;
    and the innermost frame that lies in ptera's sources."""
    tb = traceback.extract_tb(exc.__traceback__)
    if not tb:
        return None, None, False, None
    last = tb[-1]
    in_ptera = None
    for fr in tb:
        if os.path.abspath(fr.filename).startswith(PTERA_DIR):
            in_ptera = fr
    line = (last.line or "").strip()
    deliberate = (
        os.path.abspath(last.filename).startswith(PTERA_DIR) and line.startswith("raise ")
    )
    return last.name, line, deliberate, (in_ptera.name if in_ptera else None)


def classify_exception(exc, stage, text):
    """Return None if the exception is an allowed refusal for `stage`, else a (kind, site) tag.

    stage 'parse' / 'select': SyntaxError (with a position inside the text), SelectorError, or a
    deliberately raised TypeError.  stage 'probe' (creation/activation): any deliberately raised
    exception counts as a refusal; internal errors never do.
    """
    from ptera.selector import SelectorError

    name, line, deliberate, site = innermost_ptera_frame(exc)
    cls = type(exc).__name__
    if isinstance(exc, SyntaxError):
        off = exc.offset
        if off is None or not (1 <= off <= max(1, len(text.strip())) + 1):
            return ("syntax-error-without-position", site)
        return None
    if isinstance(exc, SelectorError):
        return None
    if isinstance(exc, AssertionError):
        return ("internal:" + cls, site)
    if site == "eval" and (name not in ("eval", "_eval") or line.startswith("return fn(")):
        # raised by calling the user's own value expression (f(x~lt()) ...): not ptera's error
        return None
    if deliberate and type(exc).__module__.startswith("ptera"):
        # an error class ptera defines and raises on purpose (CodeNotFoundError, ...)
        return None
    if isinstance(exc, TypeError) and deliberate:
        return None
    if stage == "probe" and deliberate and not isinstance(
        exc, (IndexError, KeyError, AttributeError)
    ):
        return None
    return ("internal:" + cls, site)

"""E1 - program-space explorer: worlds for generated programs, drivers, observations."""
import gc
import sys
import types

import re as _re

from pv.core import world
from pv.core.runner import HarnessError

_ADDR = _re.compile(r"0x[0-9a-fA-F]+")  # object addresses in reprs are not behaviour

RUNTIME = r'''
LOG = []          # ordered effect log of the current run
TRACE = []        # twin: ordered ('bind'|'meta', name, value)
TICKS = {}
LATEST = {}       # twin: live latest value of every name bound so far in this run
SUBST = {}        # twin: how SITE substitutes values (C04/C16)
LOCALNAMES = frozenset()
G = 100

GNONE = None  # a module global whose value is None

class ERR(Exception):
    pass

class NOEQ:
    """A value whose comparison is neither free nor boolean (as numpy arrays): the program never compares it."""
    __hash__ = None
    def __init__(self, v):
        self.v = v
    def __eq__(self, other):
        LOG.append(("noeq-compared",))
        raise ERR("the truth value of a comparison with NOEQ is ambiguous")
    __ne__ = __eq__

class BERR(BaseException):
    pass

class BUDGET(BaseException):
    """Raised by the helpers when a run exceeds its step budget (an override can make a loop endless)."""


def E(k, v):
    if len(LOG) > 300:
        raise BUDGET("effect budget")
    LOG.append(("E", k, FREEZE(v)))
    return v

def R(n):
    LOG.append(("R", FREEZE(n)))
    return range(n if isinstance(n, int) and 0 <= n < 4 else 2)

def T(k, n):
    c = TICKS.get(k, 0)
    TICKS[k] = c + 1
    if c > 40:
        raise BUDGET("tick budget")
    n = n if isinstance(n, int) else 1
    return max(0, (n % 3) - c)

def abs(v):
    """Module global that shadows a builtin (ptera must read globals before builtins)."""
    return v + 1000 if isinstance(v, int) else v

def PAIR(v): return (v, v + 1)
def LST(v): return [v, v + 1]
def GEN(v):
    LOG.append(("gen-start",))
    yield v
    LOG.append(("gen-mid",))
    yield v + 1
    LOG.append(("gen-end",))
def DCT(v): return {v: "p", v + 1: "q"}
def SET(v): return {v, v + 1}
def STR(v): return "ab"
class ITER:
    def __init__(self, v):
        self.items = [v, v + 1]
    def __iter__(self):
        LOG.append(("iter",))
        return self
    def __next__(self):
        LOG.append(("next",))
        if not self.items:
            raise StopIteration
        return self.items.pop(0)
def TRIPLE(v): return (v, v + 1, v + 2)
def ONE(v): return (v,)
def NEST(v): return ((v, v + 1), v + 2)
def PAIRS(n): return [(i, i + 10) for i in range(n if isinstance(n, int) and 0 <= n < 4 else 2)]

class CM:
    swallow = False
    def __init__(self, v):
        self.v = v
    def __enter__(self):
        LOG.append(("cm-enter", FREEZE(self.v)))
        return self.v
    def __exit__(self, typ, exc, tb):
        LOG.append(("cm-exit", None if typ is None else typ.__name__))
        return self.swallow and typ is not None and issubclass(typ, ERR)
class SWALLOW(CM):
    swallow = True
class CM2(CM):
    def __enter__(self):
        LOG.append(("cm-enter", FREEZE(self.v)))
        return (self.v, self.v + 1)

def SUBGEN(v):
    r = yield v
    LOG.append(("subgen-got", FREEZE(r)))
    return v + 1

class OBJ:
    def __init__(self, at):
        self.at = at

def SNAP(loc):
    return tuple(sorted((k, FREEZE(v)) for k, v in loc.items() if k in LOCALNAMES))

def SITE(sid, name, form, value):
    fn = SUBST.get("site")
    new = fn(sid, name, form, value) if fn is not None else value
    LATEST[name] = new
    # the context values are frozen *now*, when the real event would be delivered
    TRACE.append(("bind", name, FREEZE(new), form, sid, {k: FREEZE(v) for k, v in LATEST.items()}))
    return new

def SITE_INDEX(sid, base, idx, value):
    return SITE(sid, "%s[%r]" % (base, idx), "index", value)

def META(name, value):
    fn = SUBST.get("meta")
    new = fn(name, value) if fn is not None else value
    TRACE.append(("meta", name, FREEZE(new), None, None, {k: FREEZE(v) for k, v in LATEST.items()}))
    return new

def DECLARE(sid, name):
    fn = SUBST.get("declare")
    if fn is None:
        raise NameError(name)
    return fn(sid, name)
'''


def install_fake_modules():
    if "pvm" not in sys.modules:
        m = types.ModuleType("pvm")
        m.val = 7
        sys.modules["pvm"] = m
        p = types.ModuleType("pvpkg")
        p.__path__ = []
        s = types.ModuleType("pvpkg.sub")
        s.val = 9
        p.sub = s
        sys.modules["pvpkg"] = p
        sys.modules["pvpkg.sub"] = s


class _Absent:
    pass


def freeze(v, depth=0, event=False):
    """Canonical, comparable, JSON-friendly form of a value; ptera's marker stays recognisable.

    event=True: the mutable argument objects (OBJ instances, dicts) are rendered opaquely, because
    an event carries the object itself and the harness looks at it later than the twin does."""
    if event:
        if isinstance(v, dict):
            return "<dict>"
        if type(v).__name__ == "OBJ":
            return "<OBJ>"
    from ptera.utils import ABSENT

    if v is ABSENT:
        return "<<ABSENT>>"
    if v is None or isinstance(v, (bool, int, float, str)):
        return v
    if depth > 6:
        return "<deep>"
    if isinstance(v, tuple):
        return ("tuple",) + tuple(freeze(i, depth + 1) for i in v)
    if isinstance(v, list):
        return ("list",) + tuple(freeze(i, depth + 1) for i in v)
    if isinstance(v, dict):
        return ("dict",) + tuple(sorted(((freeze(k, depth + 1), freeze(x, depth + 1)) for k, x in v.items()), key=repr))
    if isinstance(v, (set, frozenset)):
        return ("set",) + tuple(sorted((freeze(i, depth + 1) for i in v), key=repr))
    if isinstance(v, BaseException):
        return ("exc", type(v).__name__, _ADDR.sub("0x", str(v)))
    if isinstance(v, types.FunctionType):
        return f"<function {v.__name__}>"
    if isinstance(v, type):
        return f"<class {v.__name__}>"
    if isinstance(v, types.ModuleType):
        return f"<module {v.__name__}>"
    if isinstance(v, types.GeneratorType):
        return "<generator>"
    d = getattr(v, "__dict__", None)
    if isinstance(d, dict) and type(v).__name__ in ("OBJ",):
        return ("obj", type(v).__name__) + tuple(sorted((k, freeze(x, depth + 1)) for k, x in d.items()))
    return f"<{type(v).__name__}>"


IGNORED_GLOBAL_PREFIXES = ("__ptera", "_ptera")  # names reserved by ptera


class World:
    """One module namespace holding RUNTIME + the program."""

    def __init__(self, src, localnames=()):
        install_fake_modules()
        self.ns = world.make_module(RUNTIME + "\n" + src, extra={"FREEZE": freeze})
        self.ns["LOCALNAMES"] = frozenset(localnames)
        self.f = self.ns["f"]
        self.orig_code = self.f.__code__
        self.baseline = None

    def reset(self):
        ns = self.ns
        ns["LOG"].clear()
        ns["TRACE"].clear()
        ns["TICKS"].clear()
        ns["LATEST"].clear()
        ns["G"] = 100
        sys.modules["pvm"].val = 7

    def snapshot_globals(self):
        out = {}
        for k, v in self.ns.items():
            if isinstance(k, str) and k.startswith(IGNORED_GLOBAL_PREFIXES):
                continue
            out[k] = v
        return out

    def globals_diff(self, before):
        """Changed / added / removed module globals (identity for objects, value for G)."""
        after = self.snapshot_globals()
        diff = []
        for k in sorted(set(before) | set(after), key=repr):
            if k in ("LOG", "TRACE", "TICKS", "SUBST", "LOCALNAMES", "LATEST"):
                continue
            if k not in after:
                diff.append(("removed", repr(k)))
            elif k not in before:
                diff.append(("added", repr(k), freeze(after[k])))
            elif before[k] is not after[k]:
                diff.append(("changed", repr(k), freeze(after[k])))
        return tuple(diff)


def make_args(flags, x):
    ns_args = [x]
    return ns_args


DRIVERS_QUICK = [
    ("next", "next", "next", "next"),
    ("next", "send", "next"),
    ("next", "throw"),
    ("next", "close"),
    ("close",),
    ("next", "drop"),
    ("drop",),
    ("send",),
    ("next", "throwbase"),
]
DRIVERS_THOROUGH = DRIVERS_QUICK + [
    ("next", "send", "send", "send"),
    ("next", "next", "throw", "next"),
    ("next", "send", "close"),
    ("next", "next", "drop"),
    ("next", "throw", "next"),
    ("throw",),
    ("next", "close", "next"),
]


def drive(gen, driver, w, split=None):
    """Run a generator under a driver; returns the transcript (list of frozen events).

    split = (index, action, other_context): `action()` runs just before driver operation `index`
    (e.g. the probes are deactivated there); with other_context the operations from `index` on run
    inside a copy of the current contextvars.Context (the generator changes context mid-way)."""
    if split is not None:
        at, action, other_context = split
        head = _drive(gen, driver[:at], w, False) if at else ()
        if head and head[-1][0] in ("stop", "raised", "dropped", "close-raised"):
            if action is not None:
                action()
            return head
        if action is not None:
            action()
        if other_context:
            import contextvars

            tail = contextvars.copy_context().run(_drive, gen, driver[at:], w, True)
        else:
            tail = _drive(gen, driver[at:], w, True)
        return tuple(head) + tuple(tail)
    return _drive(gen, driver, w, split is None)


def _drive(gen, driver, w, finalise=True):
    tr = []
    ERR = w.ns["ERR"]
    for op in driver:
        try:
            if op == "next":
                tr.append(("yielded", freeze(next(gen))))
            elif op == "send":
                tr.append(("yielded", freeze(gen.send(5))))
            elif op == "throw":
                tr.append(("yielded", freeze(gen.throw(ERR("thrown")))))
            elif op == "throwbase":
                tr.append(("yielded", freeze(gen.throw(w.ns["BERR"]("thrown-base")))))
            elif op == "close":
                r = gen.close()
                tr.append(("closed", freeze(r)))
            elif op == "drop":
                del gen
                gc.collect(0)
                tr.append(("dropped",))
                gen = None
                break
        except StopIteration as e:
            tr.append(("stop", freeze(e.value)))
            break
        except BaseException as e:
            tr.append(("raised", type(e).__name__, _ADDR.sub("0x", str(e))))
            break
    if gen is not None and finalise:
        # leave nothing suspended behind: finalise deterministically
        try:
            gen.close()
        except BaseException as e:
            tr.append(("close-raised", type(e).__name__, str(e)))
        del gen
    return tuple(tr)


def run(w, fn, x, driver=None, flags=frozenset(), split=None):
    """Call fn in world w; returns the observation tuple."""
    w.reset()
    args = [x]
    kwargs = {}
    # (input 1 leaves every optional argument to its default value)
    if "sig:rich" in flags and x != 1:
        args += [5, 6, 7]
        kwargs = {"k": 8, "z": 9}
    elif "sig:kwonly" in flags and x != 1:
        kwargs = {"k": 8}
    o = d = None
    if "o" in flags:
        o = w.ns["OBJ"](5)
        args.append(o)
    if "d" in flags:
        d = {"n": 1}
        args.append(d)
    before = w.snapshot_globals()
    poke = getattr(w.f, "POKE", None)
    if poke is not None:
        # the enclosing scope rebinds the closure variable after f was defined (and instrumented)
        poke(11)
    try:
        r = fn(*args, **kwargs)
        if isinstance(r, types.GeneratorType):
            if driver is None:
                raise HarnessError("generator program without a driver")
            res = ("gen", drive(r, driver, w, split))
            r = None
        else:
            res = ("ok", freeze(r))
    except BaseException as e:
        if isinstance(e, HarnessError):
            raise
        res = ("exc", type(e).__name__, _ADDR.sub("0x", str(e)))
    obs = (
        res,
        tuple(w.ns["LOG"]),
        ("o", freeze(o)) if o is not None else None,
        ("d", freeze(d)) if d is not None else None,
        ("G", freeze(w.ns.get("G"))),
        w.globals_diff(before),
        ("cell", freeze(w.f.PEEK())) if poke is not None else None,
    )
    return obs


def first_difference(a, b):
    labels = ["result", "effect-log", "arg o", "arg d", "global G", "module globals", "closure variable as seen by a sibling closure"]
    for lab, x, y in zip(labels, a, b):
        if x != y:
            if lab == "effect-log":
                for i, (p, q) in enumerate(zip(x, y)):
                    if p != q:
                        return lab, f"at #{i}: reference {p!r} vs instrumented {q!r}"
                return lab, f"length {len(x)} vs {len(y)}: {x[len(y):][:3]!r} / {y[len(x):][:3]!r}"
            return lab, f"reference {x!r} vs instrumented {y!r}"
    return None, None

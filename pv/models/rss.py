"""RSS - reference selector semantics over a recorded call-tree trace.

Trace events (in time order):
    ("enter", aid, label, parent_aid)   ("bind", aid, var, value)   ("exit", aid, "return"|"raise")

Selector IR:
    SCall(label, caps, children)     caps: tuple of SCap(var, alias, focus, cond)
    cond: None | ("=", value) | ("~", name, args)     (value conditions: C12)

Pure functions; no ptera code is used here.
"""
from collections import namedtuple

SCall = namedtuple("SCall", "label caps children")
SCap = namedtuple("SCap", "var alias focus cond")


def cap(var, alias=None, focus=False, cond=None):
    return SCap(var, alias or var, focus, cond)


def has_focus(call):
    return any(c.focus for c in call.caps) or any(has_focus(ch) for ch in call.children)


def focus_path(call):
    """[call0, call1, ..., callm] from the root to the call that holds the focus capture."""
    if any(c.focus for c in call.caps):
        return [call]
    for ch in call.children:
        if has_focus(ch):
            return [call] + focus_path(ch)
    return None


def all_aliases(call):
    out = [c.alias for c in call.caps]
    for ch in call.children:
        out += all_aliases(ch)
    return out


def render(call, mixed=False):
    """Selector text: all-parentheses spelling, or (mixed) with the last child of every call pulled
    out of the parentheses with '>' (r(ctx, s1(..)) > s2 > v)."""
    if mixed:
        return _render_mixed(call)
    if (len(call.caps) == 1 and call.caps[0].var == "#value" and not call.children
            and call.caps[0].alias != "#value" and not call.caps[0].focus and not call.caps[0].cond):
        # written with the documented sugar: inside parentheses `S() as r` is a plain capture of S's return value
        return f"{call.label}() as {call.caps[0].alias}"
    items = []
    for c in call.caps:
        t = ("!" if c.focus else "") + c.var
        if c.alias != c.var:
            t += f" as {c.alias}"
        if c.cond:
            if c.cond[0] == "=":
                t += f"={c.cond[1]}"
            else:
                t += f"~{c.cond[1]}({', '.join(str(a) for a in c.cond[2])})"
        items.append(t)
    for ch in call.children:
        items.append(render(ch))
    return f"{call.label}({', '.join(items)})"


def _cap_text(c, bare=False):
    t = ("!" if c.focus and not bare else "") + c.var
    if c.alias != c.var:
        t += f" as {c.alias}"
    if c.cond:
        if c.cond[0] == "=":
            t += f"={c.cond[1]}"
        else:
            t += f"~{c.cond[1]}({', '.join(str(a) for a in c.cond[2])})"
    return t


def _render_mixed(call):
    caps = list(call.caps)
    kids = list(call.children)
    tail = None
    if kids:
        tail = _render_mixed(kids.pop())
    elif caps and caps[-1].focus:
        tail = _cap_text(caps.pop(), bare=True)
    items = [_cap_text(c) for c in caps] + [render(k) for k in kids]
    head = call.label + (f"({', '.join(items)})" if items else "")
    return head if tail is None else f"{head} > {tail}"


class Index:
    """Structure of a trace: activations, ancestry, binding times."""

    def __init__(self, trace):
        self.trace = trace
        self.label = {}
        self.parent = {}
        self.kids = {}
        self.enter_t = {}
        self.exit_t = {}
        self.exit_kind = {}
        self.binds = {}  # (aid, var) -> list of (t, value)
        for t, ev in enumerate(trace):
            if ev[0] == "enter":
                _, aid, label, parent = ev
                self.label[aid] = label
                self.parent[aid] = parent
                self.kids.setdefault(parent, []).append(aid)
                self.enter_t[aid] = t
            elif ev[0] == "bind":
                _, aid, var, val = ev
                self.binds.setdefault((aid, var), []).append((t, val))
            elif ev[0] == "exit":
                self.exit_t[ev[1]] = t
                self.exit_kind[ev[1]] = ev[2]

    def stack(self, aid):
        out = []
        while aid is not None:
            out.append(aid)
            aid = self.parent[aid]
        return out[::-1]

    def descendants(self, aid):
        out = []
        todo = list(self.kids.get(aid, []))
        while todo:
            b = todo.pop(0)
            out.append(b)
            todo = list(self.kids.get(b, [])) + todo
        return out

    def latest(self, aid, var, t):
        """Latest (time, value) of var bound in activation aid at or before time t."""
        best = None
        for bt, val in self.binds.get((aid, var), ()):
            if bt <= t:
                best = (bt, val)
        return best

    def all_binds(self, aid, var, t):
        return [(bt, val) for bt, val in self.binds.get((aid, var), ()) if bt <= t]


def embeddings(path_labels, stack_labels, fixed_first=None):
    """All strictly increasing index tuples matching path labels into the stack; last -> top of stack.
    fixed_first: if given, the first path element must map to that stack index."""
    m, k = len(path_labels), len(stack_labels)
    res = []

    def rec(i, start, acc):
        if i == m - 1:
            if k - 1 >= start and stack_labels[k - 1] == path_labels[i]:
                res.append(acc + [k - 1])
            return
        for j in range(start, k - 1):
            if stack_labels[j] == path_labels[i]:
                if i == 0 and fixed_first is not None and j != fixed_first:
                    continue
                rec(i + 1, j + 1, acc + [j])

    if m == 1:
        if stack_labels[-1] == path_labels[0] and (fixed_first is None or fixed_first == k - 1):
            res.append([k - 1])
        return res
    rec(0, 0, [])
    return res


def _collect_latest(ix, under, sel, t, out):
    """Off-path child selector `sel` under activation `under`: latest values per alias (Immediate)."""
    for b in ix.descendants(under):
        if ix.label[b] != sel.label or ix.enter_t[b] > t:
            continue
        for c in sel.caps:
            lv = ix.latest(b, c.var, t)
            if lv and (c.alias not in out or out[c.alias][0] < lv[0]):
                out[c.alias] = lv
        for ch in sel.children:
            _collect_latest(ix, b, ch, t, out)


def immediate(trace, sel, at_intercept=False):
    """Expected events of an Immediate probe: list of (time, focus_aid, event dict), in delivery order.
    Events produced by different embeddings of the same binding share (time, aid).
    at_intercept: the event as an override function sees it, i.e. before the focus binding is stored
    (a plain capture of the *same* variable in the same call still has its previous value)."""
    ix = Index(trace)
    path = focus_path(sel)
    assert path, "immediate() needs a focus"
    fcap = [c for c in path[-1].caps if c.focus][0]
    labels = [c.label for c in path]
    out = []
    for t, ev in enumerate(trace):
        if ev[0] != "bind":
            continue
        _, aid, var, val = ev
        if var != fcap.var or ix.label[aid] != labels[-1]:
            continue
        st = ix.stack(aid)
        for emb in embeddings(labels, [ix.label[a] for a in st]):
            event = {}
            for lvl, (call, pos) in enumerate(zip(path, emb)):
                a = st[pos]
                for c in call.caps:
                    if c.focus:
                        event[c.alias] = val
                    else:
                        lv = ix.latest(a, c.var, t - 1 if at_intercept else t)
                        if lv:
                            event[c.alias] = lv[1]
                onpath = path[lvl + 1] if lvl + 1 < len(path) else None
                for ch in call.children:
                    if ch is onpath:
                        continue
                    got = {}
                    _collect_latest(ix, a, ch, t - 1 if at_intercept else t, got)
                    for k, (bt, v) in got.items():
                        event[k] = v
            out.append((t, aid, event))
    return out


def _collect_all(ix, under, sel, t, out):
    """Total: every value (with time) of every capture of `sel` under `under`, once per embedding."""
    for b in ix.descendants(under):
        if ix.label[b] != sel.label or ix.enter_t[b] > t:
            continue
        for c in sel.caps:
            for bt, v in ix.all_binds(b, c.var, t):
                out.setdefault(c.alias, []).append((bt, v))
        for ch in sel.children:
            _collect_all(ix, b, ch, t, out)


def total(trace, sel):
    """Focus-free selector: list of (exit time, root aid, {alias: [values in order]}), one per root
    activation that ends and during which every capture got at least one value."""
    ix = Index(trace)
    names = set(all_aliases(sel))
    out = []
    for aid, label in ix.label.items():
        if label != sel.label or aid not in ix.exit_t:
            continue
        t = ix.exit_t[aid]
        got = {}
        for c in sel.caps:
            for bt, v in ix.all_binds(aid, c.var, t):
                got.setdefault(c.alias, []).append((bt, v))
        for ch in sel.children:
            _collect_all(ix, aid, ch, t, got)
        if set(got) == names:
            rec = {k: [v for bt, v in sorted(vals, key=lambda p: p[0])] for k, vals in got.items()}
            out.append((t, aid, rec))
    out.sort(key=lambda r: r[0])
    return out


def total_focused(trace, sel):
    """A focused selector forced to total mode: per root exit, one record per (embedding, focus
    binding), each with the complete outer values.  Returns list of (exit time, root aid, [records])."""
    ix = Index(trace)
    path = focus_path(sel)
    fcap = [c for c in path[-1].caps if c.focus][0]
    labels = [c.label for c in path]
    names = set(all_aliases(sel))
    out = []
    for r, label in ix.label.items():
        if label != sel.label or r not in ix.exit_t:
            continue
        texit = ix.exit_t[r]
        records = []
        for a in [r] + ix.descendants(r):
            if ix.label[a] != labels[-1]:
                continue
            st = ix.stack(a)
            ridx = st.index(r)
            for emb in embeddings(labels, [ix.label[x] for x in st], fixed_first=ridx):
                for bt, val in ix.all_binds(a, fcap.var, texit):
                    rec = {}
                    for lvl, (call, pos) in enumerate(zip(path, emb)):
                        act = st[pos]
                        for c in call.caps:
                            if c.focus:
                                rec[c.alias] = [val]
                            else:
                                vals = [v for _, v in ix.all_binds(act, c.var, texit)]
                                if vals:
                                    rec[c.alias] = vals
                        onpath = path[lvl + 1] if lvl + 1 < len(path) else None
                        for ch in call.children:
                            if ch is onpath:
                                continue
                            got = {}
                            _collect_all(ix, act, ch, texit, got)
                            for k, vals in got.items():
                                rec[k] = [v for _, v in sorted(vals, key=lambda p: p[0])]
                    if set(rec) == names:
                        records.append(rec)
        out.append((texit, r, records))
    out.sort(key=lambda x: x[0])
    return out


# ------------------------------------------------------------------ conformance fixture for RSS itself


def fixture():
    """Worked example from DESIGN.md 2.2: tree R0[S1, R10[S2, Ta], Tb, S3, Tc] (hand-checked values)."""
    tr = []

    def enter(a, lab, par):
        tr.append(("enter", a, lab, par))

    def bind(a, var, val):
        tr.append(("bind", a, var, val))

    def exit_(a):
        tr.append(("exit", a, "return"))

    enter(0, "R", None); bind(0, "x", 0)
    enter(1, "S", 0); bind(1, "y", 1); exit_(1)
    enter(2, "R", 0); bind(2, "x", 10)
    enter(3, "S", 2); bind(3, "y", 2); exit_(3)
    enter(4, "T", 2); bind(4, "z", "a"); exit_(4)
    bind(2, "xq", 11); exit_(2)
    enter(5, "T", 0); bind(5, "z", "b"); exit_(5)
    enter(6, "S", 0); bind(6, "y", 3); exit_(6)
    enter(7, "T", 0); bind(7, "z", "c"); exit_(7)
    bind(0, "xq", 1); exit_(0)
    return tr


def self_check():
    tr = fixture()
    R = lambda caps, ch=(): SCall("R", tuple(caps), tuple(ch))
    sel = R([cap("x")], [SCall("S", (cap("y"),), ()), SCall("T", (cap("z", focus=True),), ())])
    got = [e for _, _, e in immediate(tr, sel)]
    want = [{"z": "a", "x": 10, "y": 2}, {"z": "a", "x": 0, "y": 2}, {"z": "b", "x": 0, "y": 2}, {"z": "c", "x": 0, "y": 3}]
    key = lambda d: sorted(d.items(), key=repr)
    assert sorted(map(key, got[:2])) == sorted(map(key, want[:2])) and got[2:] == want[2:], got
    sel2 = R([cap("xq")], [SCall("T", (cap("z", focus=True),), ())])
    assert all("xq" not in e for _, _, e in immediate(tr, sel2))
    sel3 = R([cap("x")], [R([], [SCall("S", (cap("y"),), ()), SCall("T", (cap("z", focus=True),), ())])])
    assert [e for _, _, e in immediate(tr, sel3)] == [{"z": "a", "y": 2, "x": 0}], immediate(tr, sel3)
    sel4 = R([cap("x")], [SCall("S", (cap("y"),), ()), SCall("T", (cap("z"),), ())])
    tot = [r for _, _, r in total(tr, sel4)]
    assert tot == [{"x": [10], "y": [2], "z": ["a"]}, {"x": [0], "y": [1, 2, 3], "z": ["a", "b", "c"]}], tot
    return True

"""Runner: tiers, seeds, sharding over processes, evidence, findings, replay files.

Every property module (pv/props/cXX.py) exposes

    PROP      = "Cxx"
    ENGINE    = "E1".."E6"
    def units(tier)          -> list of picklable work units (deterministic order)
    def work(unit, tier)     -> Partial   (executed in a worker process)
    def replay(case)         -> (violates: bool, detail: str)   re-runs one recorded case
    RULE      = text: how cases are enumerated and what non-trivial means
    ASSUMPTIONS = [..]

A Partial is a dict produced by `new_partial()` and merged by `merge()`.
"""
import hashlib
import json
import multiprocessing as mp
import os
import random
import subprocess
import sys
import time
import traceback
from collections import Counter

ROOT = os.path.dirname(os.path.dirname(os.path.dirname(os.path.abspath(__file__))))
EVIDENCE_DIR = os.path.join(ROOT, "evidence")
REPLAY_DIR = os.path.join(ROOT, "replays")
FINDINGS_FILE = os.path.join(ROOT, "known_findings.json")

MAX_REPORTED = 25  # replay files written per run (all violations are counted)


class HarnessError(Exception):
    """The harness (generator, twin, model, scheduler) is inconsistent: exit 2."""


def new_partial():
    return {
        "evaluations": 0,       # executions of the real implementation
        "cases": 0,             # distinct enumerated cases (states)
        "steps": 0,             # transitions: implementation steps / calls made
        "nontrivial": 0,        # distinct cases where the mechanism under test fired
        "outcomes": Counter(),  # distinct observed outcome classes
        "violations": [],       # list of violation dicts
        "known": Counter(),     # finding id -> number of cases attributed
        "known_examples": {},   # finding id -> one example case
        "samples": [],          # a few written-out cases
        "counters": Counter(),  # free-form measured counters
        "caps": [],             # caps hit (strings); empty = exhaustive within the bound
        "harness_errors": [],
    }


def merge(a, b):
    for k in ("evaluations", "cases", "steps", "nontrivial"):
        a[k] += b[k]
    a["outcomes"].update(b["outcomes"])
    a["known"].update(b["known"])
    for k, v in b["counters"].items():
        if str(k).startswith(("max-", "points:")):
            a["counters"][k] = max(a["counters"].get(k, 0), v)
        else:
            a["counters"][k] += v
    for k, v in b["known_examples"].items():
        a["known_examples"].setdefault(k, v)
    a["violations"].extend(b["violations"])
    if len(a["samples"]) < 6:
        a["samples"].extend(b["samples"][: 6 - len(a["samples"])])
    for c in b["caps"]:
        if c not in a["caps"]:
            a["caps"].append(c)
    a["harness_errors"].extend(b["harness_errors"])
    return a


def violation(prop, kind, case, detail, tags=()):
    """A violation record.  `case` must be JSON-serialisable and replayable."""
    return {
        "property": prop,
        "kind": kind,
        "case": case,
        "detail": detail,
        "tags": sorted(tags),
    }


def _sig(v):
    blob = json.dumps([v["kind"], v["case"]], sort_keys=True, default=repr)
    return hashlib.sha1(blob.encode()).hexdigest()[:12]


# ---------------------------------------------------------------- findings


def load_findings(prop):
    if not os.path.exists(FINDINGS_FILE):
        return []
    with open(FINDINGS_FILE) as f:
        data = json.load(f)
    return [e for e in data.get("findings", []) if e.get("property") == prop]


def open_findings(prop):
    return {e["id"]: e for e in load_findings(prop) if e.get("status") == "open"}


# ---------------------------------------------------------------- workers

_WORK = None
_TIER = None


def _init_worker(modname, tier):
    global _WORK, _TIER
    import importlib

    mod = importlib.import_module(modname)
    _WORK = mod.work
    _TIER = tier
    sys.setrecursionlimit(10000)


def _run_unit(unit):
    try:
        return _WORK(unit, _TIER)
    except HarnessError as e:
        p = new_partial()
        p["harness_errors"].append(f"{unit!r}: {e}")
        return p
    except BaseException:
        p = new_partial()
        p["harness_errors"].append(f"{unit!r}: {traceback.format_exc()}")
        return p


def run_units(mod, units, tier, jobs):
    total = new_partial()
    if jobs <= 1 or len(units) <= 1:
        _init_worker(mod.__name__, tier)
        for u in units:
            merge(total, _run_unit(u))
        return total
    ctx = mp.get_context("fork")
    with ctx.Pool(jobs, initializer=_init_worker, initargs=(mod.__name__, tier)) as pool:
        for part in pool.imap_unordered(_run_unit, units, chunksize=1):
            merge(total, part)
    return total


# ---------------------------------------------------------------- evidence


def write_evidence(prop, tier, seed, total, wall, mod, n_reported):
    os.makedirs(EVIDENCE_DIR, exist_ok=True)
    cov = {
        "evaluations": int(total["evaluations"]),
        "distinct_nontrivial": int(total["nontrivial"]),
        "rule": mod.RULE,
        "samples": total["samples"][:6] or ["<none>"],
        "states": max(1, int(total["cases"])),
        "transitions": max(1, int(total["steps"] or total["evaluations"])),
        "traces_validated_against_impl": int(total["evaluations"]),
        "exhaustive": not total["caps"],
        "caps_hit": total["caps"],
        "distinct_outcomes": len(total["outcomes"]),
        "outcome_histogram": dict(total["outcomes"].most_common(40)),
        "counters": dict(total["counters"]),
        "known_findings_fired": dict(total["known"]),
        "bounds": getattr(mod, "BOUNDS", {}).get(tier, {}),
        "engine": mod.ENGINE,
        "explanation": (
            "states = distinct enumerated cases; transitions = steps of the real "
            "implementation executed; every case executes /repo's ptera "
            "(no abstract model), so all traces are implementation traces"
        ),
    }
    ev = {
        "property_id": prop,
        "tier": tier,
        "seed": seed,
        "level": "model_checking",
        "coverage": cov,
        "assumptions": list(getattr(mod, "ASSUMPTIONS", [])),
        "wall_s": round(wall, 3),
        "violations": n_reported,
    }
    path = os.path.join(EVIDENCE_DIR, f"{prop}.json")
    tmp = path + ".tmp"
    with open(tmp, "w") as f:
        json.dump(ev, f, indent=1, sort_keys=True, default=repr)
    os.replace(tmp, path)
    return path


def validate_evidence(path):
    """Validate with jsonschema through the tooling venv when it is present."""
    schema = "/root/.vp/EVIDENCE.schema.json"
    if not (os.path.exists(schema) and os.path.exists("/opt/veriftools/pyvenv/bin/python")):
        return True, "schema validator not available; skipped"
    code = (
        "import json,sys,jsonschema;"
        "jsonschema.validate(json.load(open(sys.argv[1])),json.load(open(sys.argv[2])))"
    )
    r = subprocess.run(
        ["/opt/veriftools/pyvenv/bin/python", "-W", "ignore", "-c", code, path, schema],
        capture_output=True,
        text=True,
    )
    return r.returncode == 0, r.stderr[-2000:]


# ---------------------------------------------------------------- main


def write_replay(prop, v):
    d = os.path.join(REPLAY_DIR, prop)
    os.makedirs(d, exist_ok=True)
    path = os.path.join(d, _sig(v) + ".json")
    with open(path, "w") as f:
        json.dump(v, f, indent=1, sort_keys=True, default=repr)
    return path


def _quiet_unraisable(args):
    """Programs of the explored space may raise while a dropped generator is finalised (a `raise` in a
    finally block, a generator that ignores GeneratorExit): CPython reports these through this hook. They
    are part of the reference behaviour too, so nothing is printed."""


def main(mod, tier, seed, jobs, only=None):
    prop = mod.PROP
    t0 = time.time()
    sys.unraisablehook = _quiet_unraisable  # inherited by the forked workers
    units = list(mod.units(tier))
    if only is not None:
        units = [u for u in units if only in repr(u)]
    rnd = random.Random(seed)
    rnd.shuffle(units)  # order only; the explored set is seed independent
    total = run_units(mod, units, tier, jobs)
    post = getattr(mod, "finish", None)
    if post:
        post(total, tier)

    rc = 0
    if total["harness_errors"]:
        for h in total["harness_errors"][:5]:
            print("HARNESS-ERROR", h, file=sys.stderr)
        rc = 2

    # known findings: one line per listed finding that fired
    listed = open_findings(prop)
    for fid, n in sorted(total["known"].items()):
        e = listed.get(fid)
        what = e["what"] if e else "(unlisted)"
        print(f"KNOWN-FINDING: property={prop} {fid}: {what} [{n} cases]")

    # violations: deterministic order, simplest (shortest case) first
    viols = sorted(
        total["violations"],
        key=lambda v: (len(json.dumps(v["case"], default=repr)), _sig(v)),
    )
    n_viol = len(viols)
    if os.environ.get("PV_DUMP"):
        with open(os.environ["PV_DUMP"], "w") as f:
            for v in viols:
                f.write(json.dumps(v, default=repr) + "\n")
    d = os.path.join(REPLAY_DIR, prop)
    if os.path.isdir(d) and only is None:
        for fn in os.listdir(d):
            if fn.endswith(".json"):
                os.unlink(os.path.join(d, fn))
    seen_kinds = Counter()
    tag_hist = Counter()
    tag_ex = {}
    reported = 0
    for v in viols:
        seen_kinds[v["kind"]] += 1
        tk = (v["kind"],) + tuple(v["tags"])
        tag_hist[tk] += 1
        tag_ex.setdefault(tk, str(v["detail"])[:160])
        if reported < MAX_REPORTED and seen_kinds[v["kind"]] <= 5:
            path = write_replay(prop, v)
            print(f"VIOLATION property={prop} replay={path}")
            print(f"  kind={v['kind']} detail={str(v['detail'])[:300]}")
            reported += 1
    if n_viol:
        print(f"{n_viol} violating cases in total; kinds: {dict(seen_kinds)}")
        for tk, n in tag_hist.most_common(60):
            print(f"  {n:7d} {tk}  e.g. {tag_ex[tk]}")
        rc = max(rc, 1)

    if len(total["outcomes"]) <= 1 and rc == 0:
        print("HARNESS-ERROR vacuous exploration: a single outcome class", file=sys.stderr)
        rc = 2

    wall = time.time() - t0
    path = write_evidence(prop, tier, seed, total, wall, mod, n_viol)
    ok, msg = validate_evidence(path)
    if not ok:
        print("HARNESS-ERROR evidence does not validate:", msg, file=sys.stderr)
        rc = max(rc, 2)
    print(
        f"[{prop} {tier}] cases={total['cases']} executions={total['evaluations']} "
        f"steps={total['steps']} nontrivial={total['nontrivial']} "
        f"outcomes={len(total['outcomes'])} known={sum(total['known'].values())} "
        f"violations={n_viol} caps={total['caps']} wall={wall:.1f}s"
    )
    return rc


def do_replay(mod, path):
    with open(path) as f:
        v = json.load(f)
    r1 = mod.replay(v["case"])
    r2 = mod.replay(v["case"])
    if r1 != r2:
        print("HARNESS-ERROR replay is not deterministic", r1, r2, file=sys.stderr)
        return 2
    bad, detail = r1
    print(("VIOLATES: " if bad else "holds: ") + str(detail)[:2000])
    if bad:
        print(f"VIOLATION property={mod.PROP} replay={path}")
    return 1 if bad else 0

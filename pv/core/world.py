"""Fresh worlds: functions created from generated source, isolated from each other.

ptera needs inspect.getsource(fn), so generated source is registered in linecache under a
unique pseudo filename before it is executed.  Every world has its own globals dict, hence
its own __ptera_* entries, its own function objects and __ptera_stack__ objects.
"""
import itertools
import linecache
import sys

_COUNTER = itertools.count()
_LIVE = []
_PINNED = set()


def make_module(src, extra=None, name=None, pin=False):
    """Execute `src` in a fresh namespace; returns the namespace (a dict).

    Bookkeeping entries (linecache, codefind) of all but the 50 most recent unpinned worlds are
    dropped now and then; pin=True keeps a world usable for the life of the process."""
    n = next(_COUNTER)
    filename = f"<pv-{n}>"
    modname = name or f"pv_world_{n}"
    lines = src.splitlines(True)
    linecache.cache[filename] = (len(src), None, lines, filename)
    ns = {"__name__": modname, "__builtins__": __builtins__, "__file__": filename}
    if extra:
        ns.update(extra)
    exec(compile(src, filename, "exec"), ns, ns)
    if pin:
        _PINNED.add(filename)
    else:
        _LIVE.append(filename)
    if len(_LIVE) > 400:
        purge()
    return ns


def purge():
    """Drop linecache and codefind entries of finished worlds (memory only; no semantics)."""
    dead = set(_LIVE[:-50])
    del _LIVE[:-50]
    for fn in dead:
        linecache.cache.pop(fn, None)
    try:
        from codefind import code_registry as cr

        for d in (cr.codes, cr.currcodes):
            for k in [k for k in d if k and k[0] in dead]:
                del d[k]
        for co in [co for co in cr.backcodes if co.co_filename in dead]:
            del cr.backcodes[co]
        for co in [co for co in cr.functions if co.co_filename in dead]:
            del cr.functions[co]
    except Exception:  # pragma: no cover - codefind layout changed; only memory is at stake
        pass
    try:
        from ptera import overlay

        stale = [k for k in overlay._selector_fit_cache if getattr(getattr(k[0], "__code__", None), "co_filename", None) in dead]
        for k in stale:
            del overlay._selector_fit_cache[k]
    except Exception:  # pragma: no cover
        pass


def clean_state_problems(fn, orig_code):
    """Clean-state predicate for one function (C05 invariant); returns a list of problems."""
    from pv.core import introspect as I

    out = []
    if fn.__code__ is not orig_code:
        out.append("function is not running its original code object")
    if I.count_of(fn) != 0:
        out.append(f"instrument_count={I.count_of(fn)}")
    bad = I.leftover_captures(fn)
    if bad:
        out.append(f"capture counters left: {bad}")
    if I.current_collection() is not None:
        out.append("a handler collection is still installed")
    return out


def reset_context():
    """Force the handler context variable back to its default (used between cases only)."""
    try:
        from ptera.overlay import HandlerCollection

        if HandlerCollection.current.get() is not None:
            HandlerCollection.current.set(None)
    except Exception:
        pass
    from pv.core import introspect as I

    g = I.global_probes()
    if g is not None:
        g.clear()

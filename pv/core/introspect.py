"""Tolerant read-only access to ptera's private state (named in the properties' anchors).

If an attribute is renamed by a refactoring the accessors return None / empty values: the checks
that use them get weaker, they do not crash and they do not raise an alarm."""


def stack_of(fn):
    return getattr(fn, "__ptera_stack__", None)


def stack_state(fn):
    """(instrument_count, sorted (capture, count>0) pairs) or None when fn has no stack."""
    st = stack_of(fn)
    if st is None:
        return None
    cnt = getattr(st, "instrument_count", None)
    caps = getattr(st, "captures", None)
    try:
        pairs = tuple(sorted((str(c), n) for c, n in caps.items() if n)) if caps is not None else ()
    except Exception:
        pairs = ()
    return (cnt, pairs)


def count_of(fn):
    s = stack_state(fn)
    return 0 if s is None or s[0] is None else s[0]


def leftover_captures(fn):
    s = stack_state(fn)
    return dict(s[1]) if s else {}


def current_collection():
    try:
        from ptera.overlay import HandlerCollection

        return HandlerCollection.current.get()
    except Exception:
        return None


UNKNOWN = object()


def current_pairs():
    """None: nothing installed; UNKNOWN: something is installed but its layout cannot be read."""
    cur = current_collection()
    if cur is None:
        return None
    pairs = getattr(cur, "handler_pairs", UNKNOWN)
    return UNKNOWN if pairs is UNKNOWN else list(pairs or [])


def global_probes():
    try:
        from ptera import probe

        return getattr(probe, "global_probes", None)
    except Exception:
        return None


def n_global_probes():
    g = global_probes()
    return len(g) if g is not None else None

"""C10 - every name a function binds or reads is selectable; absent names are refused (E1 + symtable)."""
from pv.core import world
from pv.core.runner import new_partial, violation
from pv.explore import progspace as P
from pv.gen import minipy as M
from pv.props import e1common as C

PROP = "C10"
ENGINE = "E1 program-space explorer + symtable oracle"
RULE = (
    "every MiniPy program up to the size bound x every identifier in (names Python's symtable reports "
    "for the function) + (3 fresh names) + (documented and undocumented #meta names): "
    "probing('f > v').__enter__() must succeed and record the provenance symtable implies (parameter -> "
    "argument, local -> body, free -> closure, global/builtin read -> external), or be refused with "
    "SelectorError before any call when v occurs nowhere / the #name is unknown; plus a fixed battery "
    "of unresolvable and non-function targets. non-trivial = distinct (program, identifier) cases "
    "whose activation succeeded with a provenance that was checked"
)
ASSUMPTIONS = [
    "symtable of the same source is the oracle for scoping",
    "not asserted: comprehension iteration variables (PEP 709 makes symtable report them as locals), "
    "identifiers that occur in the source only inside nested scopes, provenance of names declared global "
    "and assigned",
]
BOUNDS = {"quick": {"program_size": 2}, "thorough": {"program_size": "2 over the full menu, 3 over the core and scoping menus"}}
CHUNK = 15
FRESH = ["zz_fresh", "nope_", "q9"]
METAS_OK = ["#enter", "#exit", "#value", "#error", "#yield", "#receive"]
METAS_BAD = ["#foo", "#Enter", "#values", "#valuex", "#enter2", "#exit_", "#err", "#yield1", "#receiver"]


def program_sets(tier):
    from pv.props.c02 import BIND_CTL

    extra = frozenset({"try-except-noname", "try-except-else", "with-noas", "raise-base", "global-read", "shadowed-builtin"})
    scoping = frozenset({"assign", "import-as", "del", "try-except", "try-except-noname", "with", "with-two", "for", "for-else",
                         "while-else", "global-read", "shadowed-builtin", "if-walrus", "raise-base", "def", "class", "def-rebind",
                         "async-def", "self-read", "import-as-cur", "try-except-cur"})
    ctl = (BIND_CTL | extra) if tier == "thorough" else scoping
    return [("gen", dict()), ("ctl", dict(size=C.SIZE[tier] + 1, only=ctl, key=("c10ctl", tier))),
            ("sig", dict(size=1 if tier == "quick" else 2, sigs=("rich", "kwonly", "doc", "closure-default", "closure-annot"), key=("c10sig", tier))),
            C.odd_set(tier)] + C.core3_sets(tier)


def units(tier):
    out = [("targets",)]
    for name, kw in program_sets(tier):
        n = C.count_programs(tier, **kw)
        out += [(name, lo, min(n, lo + CHUNK)) for lo in range(0, n, CHUNK)]
    return out


def expected_for(name, info, src_words):
    """(should_succeed, provenance or None, class label)"""
    sym = info["symbols"].get(name)
    if sym is None:
        if name in src_words:
            return None  # occurs only in a nested scope: not asserted
        return (False, None, "absent")
    if name in info["comp_vars"]:
        return None
    if sym.is_parameter():
        return (True, "argument", "parameter")
    if sym.is_free():
        return (True, "closure", "free")
    if sym.is_local():
        if name in info["nested_defs"]:
            return (True, "body", "local-def")
        if name in info["nested_classes"]:
            return (True, "body", "local-class")
        return (True, "body", "local")
    if sym.is_global():
        if sym.is_assigned() or sym.is_declared_global():
            return (True, None, "global-declared")
        return (True, "external", "global-read")
    return None


def try_activate(w, name):
    from ptera import probing
    from ptera.selector import SelectorError

    try:
        p = probing(f"f > {name}", env={"f": w.f})
        p.__enter__()
    except SelectorError as e:
        world.reset_context()
        return ("refused", "SelectorError", str(e)[:160], None)
    except BaseException as e:
        world.reset_context()
        return ("error", type(e).__name__, str(e)[:160], None)
    info = getattr(w.f, "__ptera_info__", None) or {}
    prov = info.get(name, {}).get("provenance") if not name.startswith("#") else "meta"
    try:
        p.__exit__(None, None, None)
    except BaseException as e:
        world.reset_context()
        return ("error", "exit:" + type(e).__name__, str(e)[:160], None)
    return ("ok", None, None, prov)


def nested_names(prog):
    import ast

    fdef = C._find_f(ast.parse(prog.src))
    defs, classes = set(), set()
    for n in C._own_nodes(fdef):
        if isinstance(n, ast.FunctionDef):
            defs.add(n.name)
        elif isinstance(n, ast.ClassDef):
            classes.add(n.name)
    # _own_nodes does not enter nested scopes but does yield the def/class nodes themselves? it skips them:
    for n in ast.walk(fdef):
        if n is fdef:
            continue
    return defs, classes


def direct_nested(prog):
    """Names bound by def / class statements directly in f's own scope."""
    import ast

    fdef = C._find_f(ast.parse(prog.src))
    defs, classes = set(), set()
    stack = list(fdef.body)
    while stack:
        n = stack.pop()
        if isinstance(n, ast.FunctionDef):
            defs.add(n.name)
            continue
        if isinstance(n, ast.ClassDef):
            classes.add(n.name)
            continue
        if isinstance(n, ast.Lambda):
            continue
        stack.extend(ast.iter_child_nodes(n))
    return defs, classes


def check_program(prog, tier, part):
    import re

    info = C.analyse(prog)
    if info is None:
        return
    info = dict(info)
    info["nested_defs"], info["nested_classes"] = direct_nested(prog)
    part["counters"]["programs"] += 1
    words = set(re.findall(r"[A-Za-z_][A-Za-z_0-9]*", prog.src))
    # one absent name first: the valid activations that follow run on a function that has refused one
    names = FRESH[:1] + sorted(info["symbols"]) + FRESH[1:]
    metas = METAS_OK + METAS_BAD + [f"#loop_{v}" for v in info["loopvars"]] + [f"#endloop_{v}" for v in info["loopvars"]]
    w = C.get_world(prog, info, "inst")
    C.fresh(w, info)
    for name in names + metas:
        if name.startswith("#"):
            exp = (name not in METAS_BAD, "meta", "meta-ok" if name not in METAS_BAD else "meta-unknown")
        else:
            exp = expected_for(name, info, words)
        if exp is None:
            part["counters"]["not-asserted"] += 1
            continue
        should, prov, label = exp
        part["cases"] += 1
        part["evaluations"] += 1
        part["steps"] += 1
        res = try_activate(w, name)
        part["outcomes"][f"{label}:{res[0]}"] += 1
        bad = None
        if should:
            if res[0] != "ok":
                bad = ("refused-selectable:" + label, f"'f > {name}' ({label}) was not activated: {res[1]}: {res[2]}")
            elif prov is not None and res[3] != prov:
                bad = ("wrong-provenance:" + label, f"'{name}' is a {label} (expected provenance {prov!r}) but ptera records {res[3]!r}")
            else:
                part["nontrivial"] += 1
        else:
            if res[0] == "ok":
                bad = ("accepted-absent:" + label, f"'f > {name}' ({label}) was activated although the name cannot be selected")
            elif res[0] == "error":
                bad = ("wrong-error:" + label, f"'f > {name}' ({label}) refused with {res[1]}: {res[2]} instead of SelectorError")
        if bad:
            case = {"src": prog.src, "forms": list(prog.forms), "name": name}
            vio = violation(PROP, bad[0], case, bad[1], tags=["class:" + label])
            C.attribute(PROP, vio, prog, part, lambda p2: True)
        unclean = world.clean_state_problems(w.f, w.orig_code)
        if unclean and res[0] == "refused" and not bad:
            case = {"src": prog.src, "forms": list(prog.forms), "name": name}
            vio = violation(PROP, "refusal-left-traces:" + label, case,
                            f"'f > {name}' ({label}) was refused, but not before anything ran: " + "; ".join(unclean)[:300], tags=["class:" + label])
            C.attribute(PROP, vio, prog, part, lambda p2: True)
        if unclean:
            part["counters"]["world-rebuilt-unclean"] += 1
            C.discard_world(prog, "inst")
            world.reset_context()
            w = C.get_world(prog, info, "inst")
            C.fresh(w, info)
    if len(part["samples"]) < 2:
        part["samples"].append({"program": prog.src, "identifiers": names + metas})
    C.drop_worlds(prog)


TARGET_SRC = '''
class NoInit:
    attr = 1

class WithCall:
    def __call__(self, x):
        y = x
        return y

obj = WithCall()
n = 3
lst = [1, 2]
def plain(x):
    y = x
    return y

async def coro(x):
    y = x
    return y

lam = lambda x: x + 1

_ns = {}
exec("def nosrc(x):" + chr(10) + "    y = x" + chr(10) + "    return y" + chr(10), _ns)
nosrc = _ns["nosrc"]

import functools
part = functools.partial(plain, 1)

class WithCallAndInit:
    def __init__(self, x=0):
        y = x

def make_ann():
    Alias = int
    def annotated(x: Alias) -> Alias:
        y = x
        return y
    return annotated

annotated = make_ann()

def generic[T](x: T) -> T:
    y: T = x
    return y

class Star:
    def n(*args):
        r = 1
        return r

star = Star()

def make_late(activate):
    # the closure variable `late` has no value yet when the probe is activated
    def inner(x):
        y = x + late
        return y
    outcome = activate(inner)
    late = 3
    return outcome, inner
'''

TARGETS = [
    # selector, expected kind: 'selector-error' | 'type-error' | 'ok'
    ("nofn > x", "selector-error"),
    ("plain.nope > x", "selector-error"),
    ("plain > x", "ok"),
    ("Star.n > r", "ok"),
    ("star.n > r", "selector-error"),  # the receiver of a bound method that only has *args cannot be named
    ("inner > late", "ok"),            # a closure variable that is still unbound when the probe is activated
    ("inner > y", "ok"),
    ("annotated > y", "ok"),           # annotations refer to a local of the enclosing function
    ("generic > y", "ok"),             # annotations refer to a type parameter (def generic[T])
    ("len > x", "type-error"),
    # call paths whose inner function cannot be instrumented: refused, and the outer function is left alone
    ("plain > lam > x", "type-error"),
    ("plain > len > x", "type-error"),
    ("plain(y) > nosrc > x", "type-error"),
    # ... also when the function that cannot be instrumented comes first
    ("len > plain > x", "type-error"),
    ("lam > plain > y", "type-error"),
    ("NoInit > x", "type-error"),
    ("n > x", "type-error"),
    ("lst.append > x", "type-error"),
    ("lst > x", "type-error"),
    ("coro > y", "type-error"),        # async def: a function, but not one ptera can instrument
    ("lam > x", "type-error"),         # lambda: no def statement to rewrite
    ("nosrc > y", "type-error"),       # no source code available
    ("part > x", "type-error"),
    ("obj > y", "type-error"),         # callable instance (its __call__ would have to be named)
    ("WithCallAndInit > y", "type-error"),
    ("WithCallAndInit.__init__ > y", "ok"),
    ("obj.__call__ > y", "ok"),
]


def check_targets(part):
    from ptera import probing
    from ptera.selector import SelectorError

    for sel, exp in TARGETS:
        ns = world.make_module(TARGET_SRC)
        plain_code = ns["plain"].__code__
        try:
            # `plain` has been probed before (it has its bookkeeping, at zero)
            with probing("plain > y", env=ns):
                pass
        except BaseException:
            pass
        part["cases"] += 1
        part["evaluations"] += 1
        part["steps"] += 1
        try:
            if sel.startswith("inner"):
                def activate(fn, sel=sel):
                    with probing(sel, env={"inner": fn}) as p:
                        pass
                    return "ok"
                got, inner = ns["make_late"](activate)
                if inner(1) != 4:
                    got = "other:wrong-result"
                msg = ""
            else:
                p = probing(sel, env={**ns, "len": len})
                p.__enter__()
                p.__exit__(None, None, None)
                got = "ok"
                msg = ""
        except SelectorError as e:
            got, msg = "selector-error", str(e)
        except TypeError as e:
            got, msg = "type-error", str(e)
        except BaseException as e:
            got, msg = "other:" + type(e).__name__, str(e)
        world.reset_context()
        part["outcomes"]["target:" + got] += 1
        left = world.clean_state_problems(ns["plain"], plain_code)
        if left and got == exp:
            part["violations"].append(violation(
                PROP, "target-left-traces", {"target": sel}, f"probing({sel!r}) -> {got}, but the function `plain` is left with: " + "; ".join(left)[:300],
                tags=["target"]))
        elif got != exp:
            part["violations"].append(violation(
                PROP, "target:" + exp, {"target": sel}, f"probing({sel!r}) -> {got} {msg[:150]}; expected {exp}",
                tags=["target"]))
        else:
            part["nontrivial"] += 1


def work(unit, tier):
    part = new_partial()
    if unit[0] == "targets":
        check_targets(part)
        return part
    name, lo, hi = unit
    kw = dict(program_sets(tier))[name]
    for prog in C.programs_slice(tier, lo, hi, **kw):
        check_program(prog, tier, part)
    return part


def replay(case):
    part = new_partial()
    if "target" in case:
        global TARGETS
        saved = TARGETS
        TARGETS = [t for t in saved if t[0] == case["target"]]
        try:
            check_targets(part)
        finally:
            TARGETS = saved
    else:
        prog = M.Prog(case["src"], tuple(case["forms"]), C.flags_of(case["src"]), 0)
        check_program(prog, "quick", part)
        part["violations"] = [v for v in part["violations"] if v["case"].get("name") == case["name"]]
    if part["violations"]:
        return True, part["violations"][0]["detail"]
    return False, "as symtable predicts"

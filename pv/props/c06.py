"""C06 - entry/exit, loop, yield, return and error meta-events bracket every path (E1 + twin)."""
from pv.core.runner import new_partial, violation, HarnessError
from pv.explore import progspace as P
from pv.gen import minipy as M
from pv.props import e1common as C

PROP = "C06"
ENGINE = "E1 program-space explorer + reference twin"
RULE = (
    "every MiniPy program of the control-flow menu (for/for-else/while/if/try-except/try-finally/with "
    "nested to depth 2, every exit kind - fall through, continue, break, return, raise, yield - in every "
    "slot) x inputs {0,1,2} x every generator driver sequence over next/send/throw/close/drop up to the "
    "bound; probes on #enter #exit #value #error #yield #receive #loop_v #endloop_v and on all variables "
    "are merged into one stream in delivery order and compared with the twin's explicit "
    "try/except/finally log; plus an independent bracket-grammar check. non-trivial = distinct cases "
    "whose expected stream has more than the bare enter/value/exit triple"
)
ASSUMPTIONS = [
    "the #error event for GeneratorExit on close()/drop of a suspended generator is not asserted either way",
    "mutual order of the brackets of a multi-variable loop target is not asserted (set iteration order); "
    "each variable's brackets are compared separately",
    "while loops have no loop events (documented: for loops only)",
    "CPython reference counting finalises dropped generators immediately",
]
BOUNDS = {
    "quick": {"program_size": 2, "control_menu_size": 3, "drivers": len(P.DRIVERS_QUICK)},
    "thorough": {"program_size": "2 over the full menu, 3 over the core menu", "control_menu_size": 3, "drivers": len(P.DRIVERS_THOROUGH)},
}
CHUNK = 8

CONTROL = {
    "assign", "aug", "expr", "return", "return-bare", "return-walrus", "raise", "raise-base", "yield", "yield-recv",
    "yield-from", "yield-bare", "aug-yield", "break", "continue",
    "if", "if-else", "for", "for-else", "for-tuple", "for-star", "while", "while-walrus", "try-except",
    "try-except-noname", "try-finally", "try-except-else", "try-except-finally", "with", "with-swallow", "with-noas", "with-two", "while-else", "assert",
}


CONTROL_QUICK = {
    "assign", "return", "raise", "raise-base", "yield", "yield-recv", "aug-yield", "break", "continue",
    "if-else", "for", "for-else", "while", "while-else", "try-except", "try-finally", "with", "with-noas",
}
CTL_DRIVERS_QUICK = [
    ("next", "next", "next", "next"), ("next", "send", "next"), ("next", "throw"), ("next", "close"),
    ("next", "throwbase"), ("next", "drop"), ("close",),
]


def program_sets(tier):
    """General menu at the common size bound + control-flow menu one size larger."""
    return [("gen", dict(tails=(True, False) if tier == "thorough" else (True,), key=("gen2", tier))),
            ("ctl", dict(size=C.SIZE[tier] + 1, only=frozenset(CONTROL if tier == "thorough" else CONTROL_QUICK),
                         key=("ctl", tier), tails=(True, False))),
            C.odd_set(tier)] + C.core3_sets(tier)


def units(tier):
    out = []
    for name, kw in program_sets(tier):
        n = C.count_programs(tier, **kw)
        out += [(name, lo, min(n, lo + CHUNK)) for lo in range(0, n, CHUNK)]
    return out


META_NAMES = ["#enter", "#exit", "#value", "#error", "#yield", "#receive"]


def selectors(info):
    sels = [f"f > {m}" for m in META_NAMES]
    for lv in info["loopvars"]:
        sels += [f"f > #loop_{lv}", f"f > #endloop_{lv}"]
    sels.append("f > $x")
    return sels


def expected_stream(trace, names):
    out = []
    for kind, name, value, form, sid, _snap in trace:
        if kind == "meta":
            if name == "#error" and isinstance(value, tuple) and value[:2] == ("exc", "GeneratorExit"):
                continue
            v = value if name in ("#value", "#error", "#yield", "#receive") else True
            out.append((name, v))
        elif name in names:
            out.append(("$var", name))
    return out


def normalise(stream, multi_loop_vars):
    """Project away what is not asserted: for multi-variable loops keep each variable's brackets in
    a separate projection."""
    if not multi_loop_vars:
        return [stream]
    base = [e for e in stream if not (e[0].startswith("#loop_") or e[0].startswith("#endloop_"))]
    projs = [base]
    loopnames = sorted({e[0].split("_", 1)[1] for e in stream if e[0].startswith(("#loop_", "#endloop_"))})
    for lv in loopnames:
        projs.append([e for e in stream if not e[0].startswith(("#loop_", "#endloop_")) or e[0].split("_", 1)[1] == lv])
    return projs


def grammar_problems(stream, ended=True):
    """Independent bracket check: enter first, exit last, loop brackets balanced and nested per name.
    ended=False: the activation never ended (a generator that ignores GeneratorExit): no exit expected."""
    probs = []
    if not stream:
        return ["no events at all"]
    names = [e[0] for e in stream]
    if names[0] != "#enter" or names.count("#enter") != 1:
        probs.append("#enter is not the unique first event")
    if not ended:
        return probs
    if names[-1] != "#exit" or names.count("#exit") != 1:
        probs.append("#exit is not the unique last event")
    stack = []
    for n in names:
        if n.startswith("#loop_"):
            stack.append(n[6:])
        elif n.startswith("#endloop_"):
            if n[9:] in stack:
                # multi-variable targets share one loop: allow any order among the innermost group
                stack.reverse()
                stack.remove(n[9:])
                stack.reverse()
            else:
                probs.append(f"{n} without a matching begin")
    if stack:
        probs.append(f"loop iterations never ended: {stack}")
    if names.count("#value") + names.count("#error") > 1:
        probs.append("more than one of #value/#error")
    pend = 0
    for n in names:
        if n == "#yield":
            pend += 1
        elif n == "#receive":
            pend -= 1
            if pend < 0:
                probs.append("#receive without a preceding #yield")
    return probs


def check_case(prog, info, x, driver, part, record=True):
    tobs, trace = C.twin_run(prog, info, x, driver)
    ref = C.ref_run(prog, info, x, driver)
    if tobs != ref:
        raise HarnessError(f"twin differs from plain program: {P.first_difference(ref, tobs)}\n{prog.src}")
    names = set(info["params"] + info["locals"]) - set(info["declared"])
    exp = expected_stream(trace, names)
    sels = selectors(info)
    merged = []
    order = {}

    def setup(i, p):
        pass

    obs, streams = probe_merged(prog, info, sels, x, driver, part, merged, names)
    if record:
        part["cases"] += 1
        part["evaluations"] += 1
        part["steps"] += len(exp)
        if len([e for e in exp if e[0] != "$var"]) > 3:
            part["nontrivial"] += 1
        part["outcomes"]["/".join(sorted({e[0].split("_")[0] for e in exp}))] += 1
    if streams is None:
        return ("activation", f"activation failed: {obs[1]}: {obs[2]}")
    if obs != ref:
        return ("not-transparent", "instrumented run differs from the reference: %s %s" % P.first_difference(ref, obs))
    got = [e for e in merged if not (e[0] == "#error" and isinstance(e[1], tuple) and e[1][:2] == ("exc", "GeneratorExit"))]
    multi = len(info["loopvars"]) > 1
    for pe, pg in zip(normalise(exp, multi), normalise(got, multi)):
        if pe != pg:
            for i, (a, b) in enumerate(zip(pe, pg)):
                if a != b:
                    return ("wrong-meta-stream", f"event #{i}: expected {a!r}, delivered {b!r}; expected {pe!r} got {pg!r}")
            if len(pe) > len(pg):
                return ("missing-meta-event", f"missing {pe[len(pg)]!r} after {len(pg)} events; expected {pe!r} got {pg!r}")
            return ("extra-meta-event", f"extra {pg[len(pe)]!r}; expected {pe!r} got {pg!r}")
    ended = any(e[0] == "#exit" for e in exp)
    gp = grammar_problems([e for e in got if e[0] != "$var"], ended) if got else []
    if gp:
        return ("bracket-grammar", "; ".join(gp) + f" in {got!r}")
    # each of the exit-path meta variables probed alone (selective instrumentation of one name)
    # (for generators also #yield / #receive alone: a yield that is only rewritten when something else
    # makes the statement around it instrumented goes unnoticed in the merged run)
    for single in ("#error", "#value", "#exit") + (("#yield", "#receive") if info["is_gen"] else ()):
        alone = []
        obs1, ok1 = probe_merged(prog, info, [f"f > {single}"], x, driver, part, alone, names)
        if ok1 is None:
            return ("activation", f"activation of 'f > {single}' alone failed: {obs1[1]}: {obs1[2]}")
        want1 = [e for e in exp if e[0] == single]
        got1 = [e for e in alone if not (e[0] == "#error" and isinstance(e[1], tuple) and e[1][:2] == ("exc", "GeneratorExit"))]
        if want1 != got1:
            return ("single-meta-probe", f"'f > {single}' probed alone: expected {want1!r}, delivered {got1!r}")
    return None


def check_raising_listener(prog, info, x, driver, part, record=True):
    """A listener that raises on a begin event (#enter, #loop_v): the exception passes through the
    activation like any other, so the brackets still close (#endloop, #error, #exit)."""
    names = set(info["params"] + info["locals"]) - set(info["declared"])
    # (the order of the brackets of a loop with several targets is not asserted: single-target loops only)
    for begin in ["#enter"] + ([f"#loop_{lv}" for lv in info["loopvars"]] if len(info["loopvars"]) == 1 else []):
        tw = C.get_world(prog, info, "twin")
        state = {"done": False}

        def meta(name, value, begin=begin, tw=tw, state=state):
            if name == begin and not state["done"]:
                state["done"] = True
                tw.ns["TRACE"].append(("meta", name, True, None, None, {}))
                raise tw.ns["ERR"]("listener")
            return value

        tobs, trace = C.twin_run(prog, info, x, driver, subst={"meta": meta})
        if not state["done"]:
            continue
        exp = expected_stream(trace, names)
        merged = []
        obs, ok = probe_merged(prog, info, selectors(info), x, driver, part, merged, names, raiser=begin)
        if record:
            part["cases"] += 1
            part["evaluations"] += 1
            part["steps"] += len(exp)
            part["nontrivial"] += 1
            part["outcomes"]["raising-listener:" + begin.split("_")[0]] += 1
        if ok is None:
            return ("activation", f"activation failed: {obs[1]}: {obs[2]}")
        if obs != tobs:
            return ("raising-listener", f"a listener raising at {begin}: run differs from the reference: %s %s" % P.first_difference(tobs, obs))
        got = [e for e in merged if not (e[0] == "#error" and isinstance(e[1], tuple) and e[1][:2] == ("exc", "GeneratorExit"))]
        multi = len(info["loopvars"]) > 1
        for pe, pg in zip(normalise(exp, multi), normalise(got, multi)):
            if pe != pg:
                return ("raising-listener", f"a listener raising at {begin}: expected {pe!r}, delivered {pg!r}")
    return None


def probe_merged(prog, info, sels, x, driver, part, merged, names, raiser=None):
    """Like C.probe_run but all probes append to one list in delivery order (raw mode)."""
    from ptera import probing
    from pv.core import world

    w = C.get_world(prog, info, "inst")
    C.fresh(w, info)
    probes = []

    def on_meta(ev):
        for k, cap in ev.items():
            nm = cap.names[0] if cap.names else k
            val = P.freeze(cap.values[0]) if nm in ("#value", "#error", "#yield", "#receive") else True
            merged.append((nm, val))

    def on_var(ev):
        # the generic capture also reports #enter/#exit/#yield/#receive (not asserted): ignored here
        for k, cap in ev.items():
            nm = cap.names[0] if cap.names else k
            if nm in names:
                merged.append(("$var", nm))

    try:
        for s in sels:
            p = probing(s, env={"f": w.f}, raw=True)
            p.subscribe(on_var if s.endswith("$x") else on_meta)
            p.__enter__()
            probes.append(p)
        if raiser:
            fired = []

            def boom(ev):
                if not fired:
                    fired.append(1)
                    raise w.ns["ERR"]("listener")

            p = probing(f"f > {raiser}", env={"f": w.f})
            p.subscribe(boom)
            p.__enter__()
            probes.append(p)
    except BaseException as e:
        for p in reversed(probes):
            try:
                p.__exit__(None, None, None)
            except BaseException:
                pass
        C.discard_world(prog, "inst")
        world.reset_context()
        return ("activation-failed", type(e).__name__, str(e)[:300]), None
    try:
        obs = P.run(w, w.f, x, driver, prog.flags)
    finally:
        for p in reversed(probes):
            try:
                p.__exit__(None, None, None)
            except BaseException:
                pass
    if world.clean_state_problems(w.f, w.orig_code):
        part["counters"]["world-rebuilt-unclean"] += 1
        C.discard_world(prog, "inst")
        world.reset_context()
    return obs, True


def check_program(prog, tier, part, setname="gen"):
    info = C.analyse(prog)
    if info is None:
        return
    part["counters"]["programs"] += 1
    drivers = (P.DRIVERS_THOROUGH if tier == "thorough" else (CTL_DRIVERS_QUICK if setname == "ctl" else P.DRIVERS_QUICK)) if info["is_gen"] else [None]
    for x in (0, 1, 2):
        for driver in drivers:
            bad = check_case(prog, info, x, driver, part)
            if bad is None and x == 1 and (driver is None or driver == drivers[0]):
                bad = check_raising_listener(prog, info, x, driver, part)
            if bad:
                kind, detail = bad
                case = {"src": prog.src, "forms": list(prog.forms), "x": x, "driver": driver}
                vio = violation(PROP, kind, case, detail, tags=["symptom:" + kind])
                C.attribute(PROP, vio, prog, part, lambda p2: _still(p2, x, driver))
    if len(part["samples"]) < 2 and len(prog.forms) > 1:
        part["samples"].append({"program": prog.src, "selectors": selectors(info)})
    C.drop_worlds(prog)


def _still(prog, x, driver):
    info = C.analyse(prog)
    part = new_partial()
    r = check_case(prog, info, x, driver, part, record=False) is not None
    if not r and x == 1:
        r = check_raising_listener(prog, info, x, driver, part, record=False) is not None
    C.drop_worlds(prog)
    return r


def work(unit, tier):
    part = new_partial()
    name, lo, hi = unit
    kw = dict(program_sets(tier))[name]
    for prog in C.programs_slice(tier, lo, hi, **kw):
        check_program(prog, tier, part, name)
    return part


def replay(case):
    prog = M.Prog(case["src"], tuple(case["forms"]), C.flags_of(case["src"]), 0)
    info = C.analyse(prog)
    part = new_partial()
    drv = tuple(case["driver"]) if case["driver"] else None
    bad = check_case(prog, info, case["x"], drv, part)
    if bad is None and case["x"] == 1:
        bad = check_raising_listener(prog, info, case["x"], drv, part)
    C.drop_worlds(prog)
    if bad:
        return True, bad[1]
    return False, "meta stream equals the twin's log"

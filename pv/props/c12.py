"""C12 - value conditions in selectors filter events exactly by the stated predicate (E6 box + E2)."""
import itertools

from pv.core import world
from pv.core.runner import new_partial, violation
from pv.explore import calltree as CT
from pv.models import rss as R
from pv.props import e2common as E

PROP = "C12"
ENGINE = "E6 integer box + E2 call-tree explorer"
RULE = (
    "(a) every(n,start,end), between(a,b[,n]), lt/gt/lte/gte(k) on every integer argument tuple and value of "
    "the box (n != 0, end possibly None) against the arithmetic definition; (b) every call tree with <= n "
    "nodes x every chain selector up to the depth bound whose captures (root context, middle context, "
    "focus) carry every assignment of {no condition, =V, ~comparison, ~range/modulo} with at least one "
    "condition: delivered events must equal the unconstrained RSS events filtered by 'every constrained "
    "capture present in the event satisfies the reference predicate'; with an overriding probe on the same "
    "selector a plain probe must see the override on exactly those bindings; (c) focus-free (total) chain and "
    "sibling selectors with one constrained capture: a record is delivered iff every value of the constrained "
    "variable in it satisfies the predicate; (d) the predicate attached to a call, r(ctx, s() as r1 ~ pred, "
    "t(!v)), filters on the call's return value; (e) throttle(1..5) on every value sequence of length 3 over "
    "[-2,8]: asked twice in a row about one value it answers the same. non-trivial = distinct "
    "(tree, selector) pairs where the filter both passed and rejected at least one event, plus box points"
)
ASSUMPTIONS = [
    "throttle is stateful and has no arithmetic meaning in the property: only the stability of its verdict (asked twice in a row about one value) is decided",
    "reference predicates are written from the property text (pv/props/c12.py ref_*)",
]
BOUNDS = {"quick": {"box": "[-6,6]^4", "tree_nodes": 4, "chain_depth": 2}, "thorough": {"box": "[-10,10]^4", "tree_nodes": 4, "chain_depth": 3, "constrained_aliases_at_depth_3": 2}}


# ------------------------------------------------------------------ reference predicates (from the statement)

def ref_every(n, start, end, v):
    if v < start:
        return False
    if end is not None and v >= end:
        return False
    return (v - start) % abs(n) == 0 if n is not None else True


def ref_between(a, b, n, v):
    if not (a <= v < b):
        return False
    return (v - a) % abs(n) == 0 if n is not None else True


REF_CMP = {"lt": lambda k, v: v < k, "gt": lambda k, v: v > k, "lte": lambda k, v: v <= k, "gte": lambda k, v: v >= k}


def check_box(lo, hi, part, nvals):
    from ptera import tools

    rng = range(lo, hi + 1)
    ends = list(rng) + [None]
    for n in nvals:
        for start in rng:
            for end in ends:
                pred = tools.every(n, start, end)
                pred_b = tools.between(start, end, n) if end is not None else None
                for v in rng:
                    part["cases"] += 1
                    part["evaluations"] += 1
                    part["steps"] += 1
                    want = ref_every(n, start, end, v)
                    try:
                        got = pred(v)
                    except BaseException as e:
                        got = f"raised {type(e).__name__}: {e}"
                    part["outcomes"][f"every:{want}"] += 1
                    if got is not want and got != want:
                        part["violations"].append(violation(
                            PROP, "predicate-every", {"pred": "every", "args": [n, start, end], "v": v},
                            f"every({n}, {start}, {end})({v}) = {got!r}, arithmetic definition gives {want}", tags=["box"]))
                    else:
                        part["nontrivial"] += 1
                    if pred_b is not None:
                        wantb = ref_between(start, end, n, v)
                        try:
                            gotb = pred_b(v)
                        except BaseException as e:
                            gotb = f"raised {type(e).__name__}: {e}"
                        if gotb != wantb:
                            part["violations"].append(violation(
                                PROP, "predicate-between", {"pred": "between", "args": [start, end, n], "v": v},
                                f"between({start}, {end}, {n})({v}) = {gotb!r}, arithmetic definition gives {wantb}", tags=["box"]))


def check_box_simple(lo, hi, part):
    from ptera import tools

    rng = range(lo, hi + 1)
    for a in rng:
        for b in rng:
            pb = tools.between(a, b)
            for v in rng:
                part["cases"] += 1
                part["evaluations"] += 1
                part["steps"] += 1
                if pb(v) != ref_between(a, b, None, v):
                    part["violations"].append(violation(
                        PROP, "predicate-between", {"pred": "between", "args": [a, b], "v": v},
                        f"between({a}, {b})({v}) = {pb(v)!r}", tags=["box"]))
        pe = tools.every(None, a, None)
        for name, ref in REF_CMP.items():
            pr = getattr(tools, name)(a)
            for v in rng:
                part["cases"] += 1
                part["evaluations"] += 1
                part["steps"] += 1
                part["outcomes"][f"{name}:{ref(a, v)}"] += 1
                if bool(pr(v)) != ref(a, v):
                    part["violations"].append(violation(
                        PROP, "predicate-" + name, {"pred": name, "args": [a], "v": v},
                        f"{name}({a})({v}) = {pr(v)!r}, expected {ref(a, v)}", tags=["box"]))
                else:
                    part["nontrivial"] += 1
        for v in rng:
            if pe(v) != (v >= a):
                part["violations"].append(violation(
                    PROP, "predicate-every", {"pred": "every", "args": [None, a, None], "v": v},
                    f"every(None, {a}, None)({v}) = {pe(v)!r}", tags=["box"]))


# ------------------------------------------------------------------ end-to-end filter

CONDS = [
    ("=", 10),
    ("~", "lt", (15,)),
    ("~", "every", (20, 0, 35)),
    ("~", "gte", (11,)),
]
CONDS_THOROUGH = CONDS + [("=", 1), ("~", "between", (5, 31)), ("~", "gt", (0,)), ("~", "lte", (21,))]


def ref_cond(cond, v):
    if cond[0] == "=":
        return v == cond[1]
    name, args = cond[1], cond[2]
    if name in REF_CMP:
        return REF_CMP[name](args[0], v)
    if name == "every":
        return ref_every(args[0], args[1] if len(args) > 1 else 0, args[2] if len(args) > 2 else None, v)
    if name == "between":
        return ref_between(args[0], args[1], args[2] if len(args) > 2 else None, v)
    raise KeyError(name)


def with_conditions(call, assign):
    """Copy of the selector with conditions attached: assign maps alias -> cond."""
    caps = tuple(c._replace(cond=assign.get(c.alias)) for c in call.caps)
    return call._replace(caps=caps, children=tuple(with_conditions(ch, assign) for ch in call.children))


def selectors(tier):
    """quick: every assignment of the 4 conditions to the aliases of the chains up to depth 2.
    thorough: that set, plus chains up to depth 3 with one alias constrained by any of the 8
    conditions or two aliases constrained by the 4 (the full product is 65M executions)."""
    out = []
    seen = set()

    def add(base, assign):
        key = (base, tuple(sorted(assign.items())))
        if key not in seen:
            seen.add(key)
            out.append((base, assign))

    for base in E.chain_selectors(2):
        aliases = R.all_aliases(base)
        for choice in itertools.product([None] + list(range(len(CONDS))), repeat=len(aliases)):
            if any(c is not None for c in choice):
                add(base, {a: CONDS[c] for a, c in zip(aliases, choice) if c is not None})
    if tier == "thorough":
        for base in E.chain_selectors(3):
            aliases = R.all_aliases(base)
            for a in aliases:
                for c in CONDS_THOROUGH:
                    add(base, {a: c})
            for a, b in itertools.combinations(aliases, 2):
                for ca in CONDS:
                    for cb in CONDS:
                        add(base, {a: ca, b: cb})
    return out


def units(tier):
    n = len(selectors(tier))
    chunk = 8
    box = BOUNDS[tier]["box"]
    hi = 6 if tier == "quick" else 10
    out = [("sels", lo, min(n, lo + chunk)) for lo in range(0, n, chunk)]
    out += [("box", -hi, hi, (m,)) for m in range(-hi, hi + 1) if m != 0] + [("box-simple", -hi, hi)]
    nt = len(total_selectors())
    out += [("total", lo, min(nt, lo + chunk)) for lo in range(0, nt, chunk)]
    nc = len(call_level_selectors())
    out += [("call-level", lo, min(nc, lo + chunk)) for lo in range(0, nc, chunk)]
    out.append(("throttle",))
    return out


def total_selectors():
    """Focus-free chains (total records) with one alias constrained: a record is delivered iff every
    value the constrained variable took in it satisfies the condition."""
    out = []
    for base in list(E.chain_selectors(2, focus=False)) + list(E.sibling_selectors(focus=False)):
        for a in R.all_aliases(base):
            for c in CONDS:
                out.append((base, {a: c}))
    return out


def call_level_selectors():
    """r(ctx, s1() as r1 ~ pred, s2(!v)): the predicate is attached to the call (its return value)."""
    out = []
    for base in E.value_selectors():
        # (also the rooted form r(ctx) > s() as r1 ~ pred, where the constrained return value is the focus)
        if len(base.children) in (1, 2):
            for c in CONDS:
                out.append((base, c))
    return out


def check_total(base, assign, trees, part):
    from ptera import probing, tools
    from pv.props.c07 import split_records

    tw = E.tree_world()
    sel = with_conditions(base, assign)
    text = R.render(sel)
    env = dict(tw.funcs)
    env.update({k: getattr(tools, k) for k in ("lt", "gt", "lte", "gte", "every", "between")})
    tr = tw.ns["TRACE"]
    try:
        p = probing(text, env=env, raw=True)
        p.subscribe(lambda ev: tr.append(("record", {k: list(c.values) for k, c in ev.items()})))
        p.__enter__()
    except BaseException as e:
        world.reset_context()
        E.reset_tree_world()
        part["violations"].append(violation(PROP, "activation", {"selector": text, "mode": "total"}, f"{type(e).__name__}: {e}", tags=["activation"]))
        return
    try:
        for tree in trees:
            try:
                raw = tw.run(tree)
            except BaseException as e:
                part["violations"].append(violation(PROP, "call-failed", {"selector": text, "mode": "total", "tree_repr": repr(tree)},
                                                    f"{CT.describe(tree)}: {type(e).__name__}: {e}", tags=["call-failed"]))
                continue
            trace, by_exit, stray = split_records(raw)
            part["cases"] += 1
            part["evaluations"] += 1
            part["steps"] += len(trace)
            allrec = R.total(trace, base)
            keep = {aid: [rec] for t, aid, rec in allrec
                    if all(all(ref_cond(cond, v) for v in rec[a]) for a, cond in assign.items() if a in rec)}
            if keep and len(keep) < len(allrec):
                part["nontrivial"] += 1
            part["outcomes"][f"total:kept={min(len(keep), 3)}:dropped={min(len(allrec) - len(keep), 3)}"] += 1
            if stray or keep != by_exit:
                part["violations"].append(violation(
                    PROP, "wrong-total-filter", {"selector": text, "mode": "total", "tree_repr": repr(tree)},
                    f"{text} on {CT.describe(tree)}: unconstrained records {[r for _, _, r in allrec]!r}; expected per root exit "
                    f"{keep!r} (every value of the constrained variable satisfies the condition); delivered {by_exit!r} {stray!r}",
                    tags=["wrong-filter"]))
    finally:
        try:
            p.__exit__(None, None, None)
        except BaseException as e:
            part["violations"].append(violation(PROP, "deactivation", {"selector": text, "mode": "total"}, f"{type(e).__name__}: {e}", tags=["deactivation"]))
    E.ensure_clean(tw)


def _cond_text(cond):
    return f"= {cond[1]}" if cond[0] == "=" else f"~ {cond[1]}({', '.join(str(a) for a in cond[2])})"


def check_call_level(base, cond, trees, part):
    from ptera import probing, tools

    tw = E.tree_world()
    plain_text = R.render(base)
    vchild = [c for c in base.children if c.caps and c.caps[0].var == "#value"][0]
    piece = f"{vchild.label}() as r1"
    if len(base.children) == 1:
        # rooted form: `r(ctx) > s > #value as r1` is also spelled `r(ctx) > s() as r1`
        plain_text = R.render(base, mixed=True)
        tail = f" > {vchild.label} > #value as r1"
        if not plain_text.endswith(tail):
            part["harness_errors"].append(f"call-level spelling: {tail!r} is not the end of {plain_text!r}")
            return
        plain_text = plain_text[: -len(tail)] + f" > {piece}"
    if plain_text.count(piece) != 1:
        part["harness_errors"].append(f"call-level spelling: {piece!r} not found once in {plain_text!r}")
        return
    text = plain_text.replace(piece, f"{piece} {_cond_text(cond)}")
    falias = [c for c in R.focus_path(base)[-1].caps if c.focus][0].alias
    env = dict(tw.funcs)
    env.update({k: getattr(tools, k) for k in ("lt", "gt", "lte", "gte", "every", "between")})
    events = []
    try:
        p = probing(text, env=env)
        p.subscribe(lambda ev: events.append({k: v for k, v in ev.items() if k != "#value"}))
        p.__enter__()
    except BaseException as e:
        world.reset_context()
        E.reset_tree_world()
        part["violations"].append(violation(PROP, "activation", {"selector": text, "mode": "call-level"}, f"{type(e).__name__}: {e}", tags=["activation"]))
        return
    try:
        for tree in trees:
            del events[:]
            try:
                trace = tw.run(tree)
            except BaseException as e:
                part["violations"].append(violation(PROP, "call-failed", {"selector": text, "mode": "call-level", "tree_repr": repr(tree)},
                                                    f"{CT.describe(tree)}: {type(e).__name__}: {e}", tags=["call-failed"]))
                continue
            unconstrained = R.immediate(trace, base)
            kept = [(t, aid, ev) for t, aid, ev in unconstrained if "r1" not in ev or ref_cond(cond, ev["r1"])]
            part["cases"] += 1
            part["evaluations"] += 1
            part["steps"] += len(trace)
            if kept and len(kept) < len(unconstrained):
                part["nontrivial"] += 1
            part["outcomes"][f"call-level:kept={min(len(kept), 3)}:dropped={min(len(unconstrained) - len(kept), 3)}"] += 1
            want = [sorted(map(E.canon, [e for (_, _, e) in g])) for _, g in itertools.groupby(kept, key=lambda r: (r[0], r[1]))]
            have = [sorted(map(E.canon, g)) for g in E.group_by_focus(list(events), falias)]
            if want != have:
                part["violations"].append(violation(
                    PROP, "wrong-filter", {"selector": text, "mode": "call-level", "tree_repr": repr(tree)},
                    f"{text} on {CT.describe(tree)}: unconstrained events {[e for _, _, e in unconstrained]!r}; expected after "
                    f"filtering on the call's return value {[e for _, _, e in kept]!r}; delivered {list(events)!r}", tags=["wrong-filter"]))
    finally:
        try:
            p.__exit__(None, None, None)
        except BaseException as e:
            part["violations"].append(violation(PROP, "deactivation", {"selector": text, "mode": "call-level"}, f"{type(e).__name__}: {e}", tags=["deactivation"]))
    E.ensure_clean(tw)


def check_throttle(part):
    """throttle is stateful and the property gives it no arithmetic meaning; what is decided here is only
    that its verdict on a value is stable: asked again about the value it has just been asked about (a
    constrained context variable is re-checked at every binding of the focus), it answers the same."""
    from ptera import tools

    for period in range(1, 6):
        for seq in itertools.product(range(-2, 9), repeat=3):
            part["cases"] += 1
            part["evaluations"] += 1
            part["steps"] += 6
            th = tools.throttle(period)
            for i, v in enumerate(seq):
                first = bool(th(v))
                again = bool(th(v))
                part["outcomes"][f"throttle:{first}"] += 1
                if first != again:
                    part["violations"].append(violation(
                        PROP, "predicate-throttle", {"pred": "throttle", "args": [period], "v": list(seq[:i + 1])},
                        f"throttle({period}) asked about {list(seq[:i + 1])!r}: {v} was {'accepted' if first else 'refused'}, "
                        f"and {'accepted' if again else 'refused'} when asked again immediately", tags=["box"]))
                    break
            else:
                part["nontrivial"] += 1


_TREES = {}


def tree_list(tier):
    if tier not in _TREES:
        _TREES[tier] = list(CT.trees(BOUNDS[tier]["tree_nodes"]))
    return _TREES[tier]


def passes(event, constrained):
    return all(ref_cond(cond, event[a]) for a, cond in constrained.items() if a in event)


def check_selector(base, assign, trees, part):
    from ptera import probing, tools

    tw = E.tree_world()
    sel = with_conditions(base, assign)
    text = R.render(sel)
    path = R.focus_path(sel)
    fcap = [c for c in path[-1].caps if c.focus][0]
    falias = fcap.alias
    env = dict(tw.funcs)
    env.update({k: getattr(tools, k) for k in ("lt", "gt", "lte", "gte", "every", "between")})
    events, plain = [], []
    OVR = 7777
    for mode in ("plain", "override"):
        active = []
        try:
            if mode == "plain":
                p = probing(text, env=env)
                p.subscribe(events.append)
                p.__enter__()
                active.append(p)
            else:
                p = probing(text, env=env, overridable=True)
                p.override(OVR)
                p.__enter__()
                active.append(p)
                p2 = probing(f"{path[-1].label} > {fcap.var}", env=env)
                p2.subscribe(lambda ev: plain.append(ev[fcap.var]))
                p2.__enter__()
                active.append(p2)
        except BaseException as e:
            for a in reversed(active):
                try:
                    a.__exit__(None, None, None)
                except BaseException:
                    pass
            world.reset_context()
            E.reset_tree_world()
            part["violations"].append(violation(PROP, "activation", {"selector": text, "mode": mode}, f"{type(e).__name__}: {e}", tags=["activation"]))
            return
        try:
            for tree in trees:
                del events[:]
                del plain[:]
                try:
                    trace = tw.run(tree)
                except BaseException as e:
                    part["violations"].append(violation(
                        PROP, "call-failed", {"selector": text, "mode": mode, "tree_repr": repr(tree)},
                        f"{CT.describe(tree)}: {type(e).__name__}: {e}", tags=["call-failed"]))
                    continue
                E.check_static(tree, trace)
                unconstrained = R.immediate(trace, base)
                part["cases"] += 1
                part["evaluations"] += 1
                part["steps"] += len(trace)
                kept = [(t, aid, ev) for t, aid, ev in unconstrained if passes(ev, assign)]
                if kept and len(kept) < len(unconstrained):
                    part["nontrivial"] += 1
                part["outcomes"][f"{mode}:kept={min(len(kept), 3)}:dropped={min(len(unconstrained) - len(kept), 3)}"] += 1
                if mode == "plain":
                    want = [sorted(map(E.canon, [e for (_, _, e) in g])) for _, g in itertools.groupby(kept, key=lambda r: (r[0], r[1]))]
                    have = [sorted(map(E.canon, g)) for g in E.group_by_focus(list(events), falias)]
                    if want != have:
                        part["violations"].append(violation(
                            PROP, "wrong-filter", {"selector": text, "mode": mode, "tree_repr": repr(tree)},
                            f"{text} on {CT.describe(tree)}: unconstrained events {[e for _, _, e in unconstrained]!r}; "
                            f"expected after filtering {[e for _, _, e in kept]!r}; delivered {list(events)!r}", tags=["wrong-filter"]))
                else:
                    # which bindings of the focus variable (in the focus function) are overridden
                    # an override feeds back: later context captures of the same variable see the
                    # substituted value, so the decisions are simulated in time order
                    tr2 = list(trace)
                    want = []
                    for t, ev in enumerate(trace):
                        if ev[0] == "bind" and ev[2] == fcap.var and path[-1].label == _label(trace, ev[1]):
                            at = [e for (tt, aid, e) in R.immediate(tr2, base, at_intercept=True) if tt == t]
                            if any(passes(e, assign) for e in at):
                                tr2[t] = ("bind", ev[1], ev[2], OVR)
                                want.append(OVR)
                            else:
                                want.append(ev[3])
                    if want != plain:
                        part["violations"].append(violation(
                            PROP, "override-condition", {"selector": text, "mode": mode, "tree_repr": repr(tree)},
                            f"{text} overriding with {OVR} on {CT.describe(tree)}: a plain probe should see {want!r}, saw {plain!r}",
                            tags=["override-condition"]))
        finally:
            for a in reversed(active):
                try:
                    a.__exit__(None, None, None)
                except BaseException as e:
                    part["violations"].append(violation(PROP, "deactivation", {"selector": text, "mode": mode}, f"{type(e).__name__}: {e}", tags=["deactivation"]))
        E.ensure_clean(tw)
        tw = E.tree_world()


def _label(trace, aid):
    for ev in trace:
        if ev[0] == "enter" and ev[1] == aid:
            return ev[2]


def work(unit, tier):
    part = new_partial()
    if unit[0] == "box":
        check_box(unit[1], unit[2], part, unit[3])
        part["samples"].append({"box": f"every/between with modulo {unit[3]} over [{unit[1]},{unit[2]}]"})
    elif unit[0] == "box-simple":
        check_box_simple(unit[1], unit[2], part)
    elif unit[0] == "throttle":
        check_throttle(part)
    elif unit[0] == "total":
        for base, assign in total_selectors()[unit[1]:unit[2]]:
            check_total(base, assign, tree_list(tier), part)
    elif unit[0] == "call-level":
        for base, cond in call_level_selectors()[unit[1]:unit[2]]:
            check_call_level(base, cond, tree_list(tier), part)
    else:
        _, lo, hi = unit
        for base, assign in selectors(tier)[lo:hi]:
            check_selector(base, assign, tree_list(tier), part)
            if len(part["samples"]) < 2:
                part["samples"].append({"selector": R.render(with_conditions(base, assign))})
    return part


def replay(case):
    part = new_partial()
    if case.get("pred") == "throttle":
        check_throttle(part)
        bad = [v for v in part["violations"] if v["case"] == case]
        return (True, bad[0]["detail"]) if bad else (False, "the verdict is stable")
    if case.get("mode") == "total":
        tree = eval(case["tree_repr"]) if "tree_repr" in case else None
        for base, assign in total_selectors():
            if R.render(with_conditions(base, assign)) == case["selector"]:
                check_total(base, assign, [tree] if tree else tree_list("quick"), part)
                return (True, part["violations"][0]["detail"]) if part["violations"] else (False, "records filtered as stated")
        return False, "selector not in the enumerated space"
    if case.get("mode") == "call-level":
        tree = eval(case["tree_repr"]) if "tree_repr" in case else None
        for base, cond in call_level_selectors():
            check_call_level(base, cond, [tree] if tree else tree_list("quick"), part)
            bad = [v for v in part["violations"] if v["case"]["selector"] == case["selector"]]
            if bad:
                return True, bad[0]["detail"]
            part = new_partial()
        return False, "events filtered as stated"
    if "pred" in case:
        hi = 10
        check_box(-hi, hi, part, [m for m in range(-hi, hi + 1) if m != 0])
        check_box_simple(-hi, hi, part)
        bad = [v for v in part["violations"] if v["case"] == case]
        return (True, bad[0]["detail"]) if bad else (False, "predicate agrees with the arithmetic definition")
    tree = eval(case["tree_repr"]) if "tree_repr" in case else None
    for base, assign in selectors("thorough") + selectors("quick"):
        if R.render(with_conditions(base, assign)) == case["selector"]:
            check_selector(base, assign, [tree] if tree else tree_list("quick"), part)
            bad = [v for v in part["violations"] if v["case"].get("mode") == case.get("mode")]
            if bad:
                return True, bad[0]["detail"]
            return False, "filtered stream equals the reference"
    return False, "selector not in the enumerated space"

"""C08 - overlays and probes in concurrent threads do not interfere (E4)."""
import sys
import threading

from pv.core import world
from pv.core.runner import new_partial, violation, HarnessError
from pv.explore import sched as S

PROP = "C08"
ENGINE = "E4 schedule explorer (stateless, preemption-bounded, real threads under sys.settrace)"
RULE = (
    "every interleaving, up to the preemption bound, of two (thorough: also three) real threads that "
    "each activate their own probe on the shared functions f and g, call them and deactivate (scenarios: "
    "same variable, different variables - which forces a new union variant while the other thread is "
    "running -, a call-path selector, and a thread that only calls); scheduling points are every line of "
    "the ptera functions that touch cross-thread state (and every bytecode of the counter updates and the "
    "code swap in the 'critical' configuration); library locks are replaced by cooperative locks. "
    "Oracle per complete schedule: each thread's events and return values equal its sequential reference, "
    "no exception escapes, no deadlock, and after join both functions run their original code with zero "
    "counters and the module global f is f. non-trivial = schedules with at least one context switch"
)
ASSUMPTIONS = [
    "interleavings at Python line / bytecode granularity inside the listed functions; code outside them "
    "(reactivex, giving, thread-local interaction code) runs atomically - it has no cross-thread state",
    "CPython with the GIL; no claim about free-threaded builds or C-level memory ordering",
    "every recorded schedule is replayed deterministically: a divergence is a harness error (exit 2)",
]
BOUNDS = {
    "quick": {"threads": 2, "line_level_preemptions": 1, "critical_opcode_level_preemptions": 1},
    "thorough": {"threads": "2 and 3", "line_level_preemptions": "1, and 2 when the second one is in push / pop / _apply (scenario different-variables)",
                 "critical_opcode_level_preemptions": 1, "three_threads_preemptions": 1},
}

SRC = '''
def f(x):
    a = x + 1
    b = a * 2
    return b

def g(x):
    c = f(x)
    return c

def t(k, n):
    for i in range(n):
        v = k + i
        yield v
'''

# scenario -> list of thread specs: ("probe", selector, key) or ("calls",)
SCENARIOS = {
    "same-variable": [("probe", "f > a"), ("probe", "f > a")],
    "different-variables": [("probe", "f > a"), ("probe", "f > b")],
    "path-and-variable": [("probe", "g > f > a"), ("probe", "f > b")],
    "probe-and-caller": [("probe", "f > b"), ("calls",)],
    # the second thread's probe is on g only, but it calls f while the first thread instruments f for the first time
    "disjoint-functions": [("probe", "f > a"), ("probe", "g > c")],
    # a thread with a plain (non-tooling) overlay on f calls f while the other thread toggles its probe:
    # which of its calls are instrumented depends on the schedule, so its events are not asserted
    "overlay-and-toggler": [("probe", "f > a"), ("overlay", "f > b")],
    # same, but the toggling thread does not yield voluntarily: one preemption inside its deactivation lets the
    # overlay thread make its *first* call of f there
    "overlay-and-straight-toggler": [("probe-straight", "f > a"), ("overlay", "f > b")],
    # the second thread's activation is refused (one of its selectors names a variable f does not have)
    # while the first thread's probe on f is active
    "refused-activation": [("probe", "f > a"), ("refused", "f > b", "f > nosuch")],
    # each thread probes the generator function t; the first parks a half-consumed generator, whichever
    # thread gets to it first closes it
    "generator-handoff": [("genprobe", "t > v", "owner"), ("genprobe", "t > v", "closer")],
    # the first thread's probe ends first (first in, first out): its deactivation has to build the variant
    # of f for the other thread's variable alone, while that thread activates a second probe on g
    "fifo-and-other-function": [("probe", "f > a"), ("probe2", "f > b", "g > c")],
    "three-threads": [("probe", "f > a"), ("probe", "f > b"), ("calls",)],
}


def visible_codes(critical_only=False):
    import importlib

    overlay, transform, probe, selector = (importlib.import_module("ptera." + m) for m in ("overlay", "transform", "probe", "selector"))
    def pick(mod, *paths):
        """Functions named by dotted paths inside mod; names that a refactoring removed are skipped."""
        out = []
        for path in paths:
            obj = mod
            for part in path.split("."):
                obj = getattr(obj, part, None)
                if obj is None:
                    break
            if obj is not None and hasattr(obj, "__code__"):
                out.append(obj)
        return out

    crit = pick(overlay, "_tooler", "_untooler") + pick(
        transform,
        "StackedTransforms.push", "StackedTransforms.pop", "StackedTransforms.get",
        "SyncedStackedTransforms.push", "SyncedStackedTransforms.pop", "SyncedStackedTransforms._apply",
        "SyncedStackedTransforms.__init__", "TransformSet.transform_for", "TransformSet._register",
    )
    rest = pick(
        overlay, "autotool", "HandlerCollection.proceed", "proceed.__enter__", "proceed.__exit__",
        "proceed.suspend", "proceed.resume", "BaseOverlay.__enter__", "BaseOverlay.__exit__",
    ) + pick(
        probe, "Probe._enter", "Probe._exit", "Probe._install_tooling", "Probe._uninstall_tooling", "Probe.__exit__",
    ) + pick(transform, "TransformSet.__init__", "TransformSet._set_base", "transform") + pick(selector, "InternedMC.__call__")
    try:
        from codefind import code_registry

        rest.append(type(code_registry).update_cache_entry)
    except Exception:
        pass
    if len(crit) < 5:
        # the bookkeeping code was reorganised: fall back to every function of the three modules
        import types

        for mod in (overlay, transform, probe):
            for obj in vars(mod).values():
                if isinstance(obj, types.FunctionType) and obj.__module__ == mod.__name__:
                    crit.append(obj)
                elif isinstance(obj, type) and obj.__module__ == mod.__name__:
                    crit += [m for m in vars(obj).values() if isinstance(m, types.FunctionType)]
    fns = crit if critical_only else crit + rest
    return {getattr(fn, "__code__") for fn in fns}, {fn.__code__ for fn in crit}


def find_library_locks():
    """(module, attribute) of every threading lock object held in ptera's modules."""
    import ptera

    lock_types = (type(threading.Lock()), type(threading.RLock()))
    out = []
    for name, mod in list(sys.modules.items()):
        if name == "ptera" or name.startswith("ptera."):
            for attr, val in vars(mod).items():
                if isinstance(val, lock_types):
                    out.append((mod, attr))
    return out


def expected_for(spec, k):
    """Sequential reference of one thread: (events, results) of calling f(k), g(k), f(k+1)."""
    results = ((k + 1) * 2, (k + 1) * 2, (k + 2) * 2)
    if spec[0] in ("calls", "refused"):
        return (), results
    if spec[0] == "probe2":
        b = lambda v: (("b", (v + 1) * 2),)
        ev1 = (b(k), b(k), b(k + 1), b(k + 1))
        ev2 = ((("c", (k + 2) * 2),),)
        return (ev1, ev2), ((k + 1) * 2, (k + 1) * 2, (k + 2) * 2, (k + 2) * 2)
    if spec[0] == "genprobe":
        own = tuple((("v", k + i),) for i in range(2))
        if spec[2] == "owner":
            return ((("v", k),),) + own, (k, k + 1)
        return own, (k, k + 1)
    if spec[0] == "overlay":
        return None, results
    sel = spec[1]
    if sel == "f > a":
        ev = ({"a": k + 1}, {"a": k + 1}, {"a": k + 2})
    elif sel == "f > b":
        ev = ({"b": (k + 1) * 2}, {"b": (k + 1) * 2}, {"b": (k + 2) * 2})
    elif sel == "g > f > a":
        ev = ({"a": k + 1},)
    elif sel == "g > c":
        ev = ({"c": (k + 1) * 2},)
    return tuple(tuple(sorted(e.items())) for e in ev), results


def make_bodies(ns, specs, sched_ref, box=None):
    """sched_ref[0] is the Execution (set after construction) - bodies yield voluntarily between
    their steps so that the default schedule already interleaves activation, calls and deactivation."""
    from ptera import probing

    def handoff(label):
        if sched_ref[0] is not None:
            sched_ref[0].handoff(label)

    bodies = []
    for i, spec in enumerate(specs):
        k = 10 * (i + 1)

        def body(spec=spec, k=k):
            f, g = ns["f"], ns["g"]
            events = []
            if spec[0] == "probe-straight":
                p = probing(spec[1], env={"f": f, "g": g})
                p.subscribe(lambda ev: events.append(tuple(sorted(ev.items()))))
                with p:
                    res = (f(k), g(k), f(k + 1))
            elif spec[0] == "probe":
                p = probing(spec[1], env={"f": f, "g": g})
                p.subscribe(lambda ev: events.append(tuple(sorted(ev.items()))))
                p.__enter__()
                try:
                    handoff("activated")
                    r1 = f(k)
                    handoff("called-f")
                    r2 = g(k)
                    r3 = f(k + 1)
                    handoff("before-deactivate")
                    res = (r1, r2, r3)
                finally:
                    p.__exit__(None, None, None)
            elif spec[0] == "probe2":
                ev2 = []
                p1 = probing(spec[1], env={"f": f, "g": g})
                p1.subscribe(lambda ev: events.append(tuple(sorted(ev.items()))))
                p2 = probing(spec[2], env={"f": f, "g": g})
                p2.subscribe(lambda ev: ev2.append(tuple(sorted(ev.items()))))
                with p1:
                    handoff("activated")
                    r1 = f(k)
                    handoff("called-f")
                    r2 = g(k)
                    handoff("before-second")
                    with p2:
                        r3 = f(k + 1)
                        r4 = g(k + 1)
                return (tuple(events), tuple(ev2)), (r1, r2, r3, r4)
            elif spec[0] == "refused":
                from ptera.selector import SelectorError

                try:
                    with probing(*spec[1:], env={"f": f, "g": g}) as p:
                        p.subscribe(lambda ev: events.append(tuple(sorted(ev.items()))))
                        f(k)
                    events.append("the activation was accepted")
                except SelectorError:
                    pass
                handoff("refused")
                r1 = f(k)
                handoff("called-f")
                r2 = g(k)
                res = (r1, r2, f(k + 1))
            elif spec[0] == "genprobe":
                t = ns["t"]
                p = probing(spec[1], env={"t": t})
                p.subscribe(lambda ev: events.append(tuple(sorted(ev.items()))))
                with p:
                    if spec[2] == "owner":
                        it = t(k, 3)
                        next(it)
                        box["it"] = it
                        del it
                    handoff("parked")
                    it = box.pop("it", None)
                    if it is not None:
                        it.close()
                    del it
                    handoff("closed")
                    res = tuple(t(k, 2))
            elif spec[0] == "overlay":
                from ptera import BaseOverlay, Immediate
                from ptera.selector import select

                ol = BaseOverlay(Immediate(select(spec[1], env={"f": f, "g": g}), trigger=lambda ev: events.append("event")))
                with ol:
                    r1 = f(k)
                    handoff("called-f")
                    r2 = g(k)
                    handoff("called-g")
                    res = (r1, r2, f(k + 1))
                return None, res
            else:
                r1 = ns["f"](k)
                handoff("called-f")
                r2 = ns["g"](k)
                handoff("called-g")
                res = (r1, r2, ns["f"](k + 1))
            return tuple(events), res

        bodies.append(body)
    return bodies


def execute(scenario, prefix, critical_only):
    """One controlled execution; returns (Execution, problems list)."""
    specs = SCENARIOS[scenario]
    world.reset_context()
    ns = world.make_module(SRC)
    f, g = ns["f"], ns["g"]
    orig = {"f": f.__code__, "g": g.__code__, "t": ns["t"].__code__}
    visible, crit = visible_codes(critical_only)
    ref = [None]
    box = {}
    x = S.Execution(make_bodies(ns, specs, ref, box), prefix, visible, opcode_codes=crit if critical_only else (),
                    entry_files={f.__code__.co_filename})
    ref[0] = x
    locks = find_library_locks()
    saved = [(m, a, getattr(m, a)) for m, a in locks]
    coop = {}
    for m, a in locks:
        orig_lock = getattr(m, a)
        if id(orig_lock) not in coop:  # one lock may be imported under several module names
            coop[id(orig_lock)] = S.CoopLock(x, f"{m.__name__}.{a}")
        setattr(m, a, coop[id(orig_lock)])
    # locks the library creates while it runs (per-object locks) become cooperative locks as well
    proxied = []
    for name, mod in list(sys.modules.items()):
        if (name == "ptera" or name.startswith("ptera.")) and getattr(mod, "threading", None) is threading:
            mod.threading = S.ThreadingProxy(threading)
            proxied.append(mod)
    try:
        x.run()
    finally:
        for m, a, v in saved:
            setattr(m, a, v)
        for mod in proxied:
            mod.threading = threading
    probs = []
    if isinstance(x.fatal, S.ReplayDivergence):
        raise HarnessError(f"schedule replay diverged in {scenario}: {x.fatal}")
    if x.fatal is not None:
        probs.append(f"{type(x.fatal).__name__}: {x.fatal}")
    for t, spec in enumerate(specs):
        if x.errors[t]:
            probs.append(f"thread {t} ({spec}) raised {x.errors[t][0]}: {x.errors[t][1]}")
            continue
        want = expected_for(spec, 10 * (t + 1))
        if x.results[t] != want:
            probs.append(f"thread {t} ({spec}): events/results {x.results[t]!r}, sequential reference {want!r}")
    if x.fatal is None:
        for name in ("f", "g", "t"):
            for p in world.clean_state_problems(ns[name], orig[name]):
                if "handler collection" not in p:
                    probs.append(f"after join, {name}: {p}")
        if ns.get("f") is not f or ns.get("g") is not g:
            probs.append("after join the module globals f/g are not the functions any more")
        extra = [k for k in ns if k is None or (isinstance(k, str) and not k.startswith(("__", "_ptera")) and k not in ("f", "g", "t"))]
        if extra:
            probs.append(f"module globals polluted: {extra!r}")
    world.reset_context()
    from pv.core import introspect as I

    if I.global_probes() is not None:
        I.global_probes().clear()
    return x, probs


def warm(scenario):
    execute(scenario, [0], False)


CONFIGS = {
    "quick": [("lines", False, 1), ("critical", True, 1)],
    "thorough": [("lines", False, 1), ("critical", True, 1)],
}
# thorough: a second preemption is allowed at the lines of the counter updates and of the code swap in the
# scenario that races on them most (two variants of f, built and installed while the other thread runs);
# measured: the same for four scenarios and eight functions does not finish in 25 minutes on 16 cores
REGION_NAMES = {"push", "pop", "_apply"}
REGION_SCENARIOS = {"different-variables"}


def region_for(scenario, critical, tier):
    if tier == "thorough" and not critical and scenario in REGION_SCENARIOS:
        return (lambda loc: isinstance(loc, tuple) and loc[0] in REGION_NAMES), 2
    return None, None


def units(tier):
    out = []
    for scenario in SCENARIOS:
        three = len(SCENARIOS[scenario]) > 2
        if three and tier == "quick":
            continue
        for cname, critical, bound in CONFIGS[tier]:
            if critical and scenario not in ("same-variable", "different-variables", "disjoint-functions") and (tier == "quick" or three):
                continue  # quick: bytecode granularity on the scenarios that race on the counters / code swap
            if three:
                bound = 1
            warm(scenario)
            x, _ = execute(scenario, [], critical)
            # shard by the position of the first deviation from the default schedule
            region, rbound = region_for(scenario, critical, tier)
            alts = S.alternatives(x, 0, bound, region, rbound)
            chunk = max(1, len(alts) // (48 if region is None else 480) + 1)
            for lo in range(0, len(alts), chunk):
                out.append(("explore", scenario, critical, bound, lo, lo + chunk))
            out.append(("default", scenario, critical, bound))
    return out


def sig(x):
    return tuple((p[0], p[3]) for p in x.points if p[0] != p[3])


_TIER = ["quick"]


def explore(scenario, critical, bound, prefix, part, seen):
    """DFS below `prefix` (which already contains its deviation)."""
    region, rbound = region_for(scenario, critical, _TIER[0])
    x, probs = execute(scenario, prefix, critical)
    part["evaluations"] += 1
    part["steps"] += len(x.points)
    switches = sum(1 for p in x.points if p[0] != p[3] and p[4] not in ("start",))
    if switches:
        part["nontrivial"] += 1
    key = tuple(x.choices())
    if key not in seen:
        seen.add(key)
        part["cases"] += 1
    part["outcomes"][f"{scenario}:switches={min(switches, 4)}:{'bad' if probs else 'ok'}"] += 1
    if probs and any("harness hang" in p for p in probs):
        part["counters"]["hangs"] += 1
    if probs:
        sched_desc = [(i, p[0], p[3], p[2]) for i, p in enumerate(x.points) if p[0] != p[3]]
        part["violations"].append(violation(
            PROP, "thread-interference", {"scenario": scenario, "critical": critical, "schedule": list(prefix)},
            f"{scenario}: " + "; ".join(probs)[:600] + f" | context switches (point, from, to, at): {sched_desc[:6]!r}",
            tags=["scenario:" + scenario]))
        return
    if x.preemptions_before(len(x.points)) >= max(bound, rbound or 0):
        return
    for alt in S.alternatives(x, len(prefix), bound, region, rbound):
        if part["counters"]["hangs"] >= 2:
            return  # every further schedule of this unit would wait for the same hang
        explore(scenario, critical, bound, alt, part, seen)


def work(unit, tier):
    part = new_partial()
    sys.setswitchinterval(1e-3)
    _TIER[0] = tier
    kind, scenario, critical, bound = unit[:4]
    warm(scenario)
    seen = set()
    if kind == "default":
        x, probs = execute(scenario, [], critical)
        # determinism: the same schedule twice gives the same points
        y, _ = execute(scenario, x.choices(), critical)
        if [p[:4] for p in x.points] != [p[:4] for p in y.points]:
            raise HarnessError(f"{scenario}: replaying the default schedule gives different scheduling points")
        part["cases"] += 1
        part["evaluations"] += 2
        part["steps"] += len(x.points)
        part["counters"][f"points:{scenario}:{'critical' if critical else 'lines'}"] = len(x.points)
        part["outcomes"][f"{scenario}:default:{'bad' if probs else 'ok'}"] += 1
        part["samples"].append({"scenario": scenario, "config": "critical" if critical else "lines",
                                "points_in_default_schedule": len(x.points),
                                "first_points": [list(map(str, p[:4])) for p in x.points[:6]]})
        if probs:
            part["violations"].append(violation(PROP, "thread-interference", {"scenario": scenario, "critical": critical, "schedule": []},
                                                f"{scenario} (no preemption): " + "; ".join(probs)[:600], tags=["scenario:" + scenario]))
        return part
    lo, hi = unit[4], unit[5]
    x, _ = execute(scenario, [], critical)
    region, rbound = region_for(scenario, critical, tier)
    for alt in S.alternatives(x, 0, bound, region, rbound)[lo:hi]:
        if part["counters"]["hangs"] >= 2:
            break
        explore(scenario, critical, bound, alt, part, seen)
    return part


def replay(case):
    warm(case["scenario"])
    x, probs = execute(case["scenario"], case["schedule"], case["critical"])
    y, probs2 = execute(case["scenario"], case["schedule"], case["critical"])
    if probs:
        return True, "; ".join(probs)[:800]
    return False, "schedule runs without interference"

"""C18 - malformed selectors are rejected with a syntax or selector error (E5)."""
import itertools
import signal

from pv.core import world
from pv.core.runner import new_partial, violation, open_findings
from pv.explore import strings as S

PROP = "C18"
ENGINE = "E5 string-space explorer"
RULE = (
    "every token string up to N tokens over the selector alphabet (words of every operand kind, "
    "every operator and bracket of the lexer/tower, one foreign character), every edit-distance-1 "
    "(thorough: 2) neighbour of every valid selector of the C15 grammar, and every targeted "
    "ill-formedness injection; each string goes through parse(), then select() in a fixed "
    "environment, then probe creation and activation (plain and overridable). non-trivial = "
    "distinct strings that are refused (an exception was raised at some stage)"
)
ASSUMPTIONS = [
    "TypeError / refusal exceptions are told apart from internal errors by the innermost frame "
    "being an explicit `raise` statement inside ptera (assert statements never count)",
    "pumped strings (a unit of 1-3 characters repeated 31 / 64 times between 7 prefixes and 4 suffixes) are run one by one under a 15 s alarm, re-run under 90 s before non-termination is reported",
    "termination: a 60 s alarm re-armed every 200 strings; when it fires the current string is re-run alone under a 300 s alarm before non-termination is reported",
]
BOUNDS = {
    "quick": {"full_alphabet_N": 3, "core_alphabet_N": 4, "edit_distance": 1, "value_context_N": 4, "value_core_N": "6 (7 thorough) inside g( .. )"},
    "thorough": {"full_alphabet_N": 4, "core_alphabet_N": 6, "edit_distance": "2 around the 30 hand-written seeds, 1 around the generated ones", "value_context_N": 5, "value_core_N": "6 (7 thorough) inside g( .. )"},
}

ENV_SRC = '''
from ptera import tag
from ptera.tools import lt
import functools

def f(x, y=1):
    z: tag.A = x + y
    return z

def g(x) -> tag.A:
    y = f(x)
    return y

class K:
    def m(self, x):
        y = x
        return y

obj = K()
n = 3
zero = 0
'''


def make_env(pin=False):
    ns = world.make_module(ENV_SRC, pin=pin)
    return ns


VALID_SEEDS = [
    "f > x", "f(!x)", "f(x) > z", "f(x, !z)", "g > f > z", "g > (f > z)", "g(f(!z))",
    "f() as r", "f(!#value as r)", "f > $v", "f > * as v", "f(x)=3", "f(x, #value=3)",
    "g(x) > f(y) > z", "g(x, f(y as w, !z))", "f(x=1) > z", "f(x~lt(3)) > z", "f > z:@A",
    "f > $v:@A", "f > *:@A", "K.m > y", "obj.m > y", "f(!x, !!z)", "f(!#enter, #error, !!#exit)",
    "f(x, z)", "g(x, f(z))", "*:@A(!x)", "g(y) > f(x as q) > z", "f > #value", "f(#enter) > x",
]

INJECTIONS = {
    "unknown-meta": ["f > #foo", "f(#foo) > x", "f(x, !#bar)", "g(#nope, f(!z))", "f > #valuex", "f(#enter2) > x",
                     "f > #exit_", "f > #Value", "f(#errors) > x", "f > #yield1", "f > #receive_", "f > #val",
                     "f > #value.real", "f(#enter.x) > x", "g > f > #error.args", "f > #exit.code"],
    "non-tag-category": ["f > x:n", "f > x:1", "f > $v:n", "f(x:K) > z", "f:n > x",
                         "f:0 > x", "g > f:0 > z", "f:'' > x", "f > $v:0", "f(x:0) > z", "f:zero > x"],
    "unresolvable-function": ["nope > x", "g > nope > x", "nope(x) > y", "g(nope(!x))", "/.x/f > y", "g > /.x/f > y", "/x..y/f > y"],
    "second-focus-without-first": ["f(!!x)", "f(x, !!z)", "g(f(!!z))", "g(!!x, f(z))"],
    "unknown-variable": ["f > nope", "f(nope) > x", "g(x, f(!q))"],
    "non-function-target": ["n > x", "K > x", "len > x", "obj > x"],
}
VALUE_PREFIXES = ["f > x =", "f ( x ~", "f > x :", "f ( x ) ="]
VALUE_SUFFIX = {"f ( x ~": " ) > z", "f > x = g (": " )", "f ( x ~ g (": " ) ) > z"}
VALUE_CORE = ["g", "1", "(", ")", "=", ","]
VALUE_ALPHABET = ["g", "lt", "1", "'s'", "(", ")", ",", "=", "~", ":", "@A", "x"]
NO_FOCUS_OVERRIDABLE = ["f(x)", "f(x, z)", "g(x, f(z))"]


def units(tier):
    b = BOUNDS[tier]
    out = []
    for a in S.FULL:
        out.append(("strings", "FULL", (a,), b["full_alphabet_N"]))
    out.append(("strings", "FULL", (), 0))
    for a, c in itertools.product(S.CORE, repeat=2):
        out.append(("strings", "CORE", (a, c), b["core_alphabet_N"]))
    # value-expression contexts: the second evaluator (value_evaluate) has its own operand asserts
    for pre in VALUE_PREFIXES:
        for a in VALUE_ALPHABET:
            out.append(("value", pre, (a,), 4 if tier == "quick" else 5))
    deep = 6 if tier == "quick" else 7
    for v1 in VALUE_CORE:
        out.append(("value-core", "f > x =", (v1,), deep))
        out.append(("value-core", "f > x = g (", (v1,), deep))
        out.append(("value-core", "f ( x ~ g (", (v1,), deep))
    for i in range(len(valid_selectors(tier))):
        out.append(("edits", i, 1 if tier == "quick" else 2))
    out.append(("inject",))
    for i in range(len(PUMP_PREFIXES)):
        out.append(("pump", i))
    return out


# "pumped" strings: one short unit repeated many times between a prefix and a suffix - the inputs on which
# a tokenizer pattern or a recursive descent that is fine on short strings stops terminating in practice
PUMP_PREFIXES = ["", "'", "f > x = '", "f > x = ", "f(", "f > ", "f(x ~ g('"]
PUMP_UNITS = ["a", "0", " ", "'", "\\", ".", "(", ")", "[", "]", ">", "!", "$", "#", "*", ":", "=", "~", ",", "-", "@", "/",
              "ab ", "a.", "a'", "\\'", "( ", "a,", "'a", "a\\", "a b", "1.", "()", "a(", "a)"]
PUMP_SUFFIXES = ["", "'", ")", " > y"]
PUMP_COUNTS = (31, 64)


def pump_texts(i):
    pre = PUMP_PREFIXES[i]
    for u in PUMP_UNITS:
        for k in PUMP_COUNTS:
            for suf in PUMP_SUFFIXES:
                yield pre + u * k + suf


_VALID_CACHE = {}


def valid_selectors(tier):
    if tier not in _VALID_CACHE:
        sels = list(VALID_SEEDS)
        try:
            from pv.gen import selgen

            gen = selgen.c18_seed_selectors("quick")
            # (every generated selector in the thorough tier was measured: 32 000 seeds x ~1300 neighbours each,
            # with a probe made and activated for every string, does not finish in 40 minutes on 16 cores)
            sels += gen[::3]
        except ImportError:
            pass
        seen, out = set(), []
        for s in sels:
            if s not in seen:
                seen.add(s)
                out.append(s)
        _VALID_CACHE[tier] = out
    return _VALID_CACHE[tier]


class _Timeout(Exception):
    pass


def _alarm(signum, frame):
    raise _Timeout()


def tokenize_words(text):
    """Split a selector text into harness tokens (for edit neighbours)."""
    import re

    return tuple(re.findall(r"!!|>>|\[\[|\]\]|\bas\b|[(){}\[\]>:,$=~!%]|'[^']*'|[a-zA-Z_0-9#@*./-]+", text))


def check_text(text, env, part, seen, deep=True):
    """Run one string through all stages.  Returns list of violations."""
    from ptera.selector import parse, select, Selector
    from ptera.probe import Probe, OverridableProbe

    if text in seen:
        return
    seen.add(text)
    part["cases"] += 1
    part["evaluations"] += 1
    part["steps"] += 1

    def bad(kind, site, stage, detail, overridable=None):
        case = {"text": text, "stage": stage}
        if overridable is not None:
            case["overridable"] = overridable
        part["violations"].append(
            violation(PROP, kind, case, detail, tags=[f"site:{kind}@{site}", f"stage:{stage}"])
        )

    try:
        r = parse(text)
    except BaseException as e:
        if isinstance(e, _Timeout):
            raise
        c = S.classify_exception(e, "parse", text)
        part["outcomes"]["parse:" + type(e).__name__] += 1
        part["nontrivial"] += 1
        if c:
            bad(c[0], c[1], "parse", f"parse({text!r}) raised {type(e).__name__}: {e}")
        return
    if not isinstance(r, Selector):
        part["outcomes"]["parse:non-selector"] += 1
        bad("returns-non-selector", "parse", "parse", f"parse({text!r}) returned {type(r).__name__}")
        return
    part["outcomes"]["parse:ok"] += 1
    try:
        sel = select(text, env=env)
    except BaseException as e:
        if isinstance(e, _Timeout):
            raise
        c = S.classify_exception(e, "select", text)
        part["outcomes"]["select:" + type(e).__name__] += 1
        part["nontrivial"] += 1
        if c:
            bad(c[0], c[1], "select", f"select({text!r}) raised {type(e).__name__}: {e}")
        return
    part["outcomes"]["select:ok"] += 1
    if not deep:
        return
    for cls in (Probe, OverridableProbe):
        ov = cls is OverridableProbe
        env2 = make_env()
        part["steps"] += 1
        try:
            p = cls(text, env=env2)
        except BaseException as e:
            if isinstance(e, _Timeout):
                raise
            c = S.classify_exception(e, "probe", text)
            part["outcomes"]["create:" + type(e).__name__] += 1
            if c:
                bad(c[0], c[1], "create", f"probe creation on {text!r} raised {type(e).__name__}: {e}", ov)
            continue
        try:
            p.__enter__()
        except BaseException as e:
            if isinstance(e, _Timeout):
                world.reset_context()
                raise
            c = S.classify_exception(e, "probe", text)
            part["outcomes"]["activate:" + type(e).__name__] += 1
            if c:
                bad(c[0], c[1], "activate", f"activation of {text!r} raised {type(e).__name__}: {e}", ov)
            world.reset_context()
            continue
        part["outcomes"]["activate:ok"] += 1
        try:
            p.__exit__(None, None, None)
        except BaseException as e:
            if isinstance(e, _Timeout):
                world.reset_context()
                raise
            bad("internal:" + type(e).__name__, "deactivate", "deactivate", f"deactivation of {text!r}: {e!r}", ov)
            world.reset_context()
    return


def must_refuse(text, env_factory, part, why, overridable, env=None, probe_type=None):
    """The selector (or: one probe made of several selectors, when text is a tuple) must be refused at
    creation or activation (never silently accepted).  env: reuse an environment, i.e. the same functions
    and therefore the same interned selector objects as an earlier attempt."""
    from ptera.probe import Probe, OverridableProbe

    part["cases"] += 1
    part["evaluations"] += 1
    part["steps"] += 1
    cls = OverridableProbe if overridable else Probe
    env = env_factory() if env is None else env
    texts = text if isinstance(text, tuple) else (text,)
    text = " + ".join(texts)
    stage = "create"
    try:
        p = cls(*texts, env=env, **({"probe_type": probe_type} if probe_type else {}))
        stage = "activate"
        p.__enter__()
    except BaseException as e:
        c = S.classify_exception(e, "probe" if stage == "activate" or True else "select", text)
        part["outcomes"][f"refused-at-{stage}:{type(e).__name__}"] += 1
        part["nontrivial"] += 1
        world.reset_context()
        if c:
            part["violations"].append(
                violation(
                    PROP, c[0], {"text": text, "stage": stage, "overridable": overridable, "inject": why},
                    f"{why}: {text!r} refused with an internal error {type(e).__name__}: {e}",
                    tags=[f"site:{c[0]}@{c[1]}", f"stage:{stage}", f"inject:{why}"],
                )
            )
        return
    try:
        p.__exit__(None, None, None)
    except BaseException:
        pass
    world.reset_context()
    part["outcomes"]["accepted"] += 1
    part["violations"].append(
        violation(
            PROP, "not-refused", {"text": text, "inject": why, "overridable": overridable},
            f"{why}: {text!r} was accepted by probe creation and activation",
            tags=[f"inject:{why}", "symptom:not-refused"],
        )
    )


def work(unit, tier):
    part = new_partial()
    env = make_env(pin=True)
    seen = set()
    signal.signal(signal.SIGALRM, _alarm)
    kind = unit[0]
    current = [None]

    def batch(texts, deep=True):
        """Watchdog: an alarm is re-armed every 200 strings; if it fires, the string being processed
        is re-run alone under a generous alarm before non-termination is reported (a loaded machine
        must not look like a hang)."""
        it = iter(texts)
        n = 0
        while True:
            signal.alarm(60)
            try:
                for t in it:
                    current[0] = t
                    check_text(t, env, part, seen, deep=deep)
                    n += 1
                    if n % 200 == 0:
                        signal.alarm(60)
                signal.alarm(0)
                return
            except _Timeout:
                signal.alarm(0)
                suspect = current[0]
                seen.discard(suspect)
                signal.alarm(300)
                try:
                    check_text(suspect, env, part, seen, deep=deep)
                    signal.alarm(0)
                    part["counters"]["watchdog-false-alarms"] += 1
                except _Timeout:
                    signal.alarm(0)
                    part["violations"].append(
                        violation(PROP, "non-termination", {"text": suspect, "stage": "parse"},
                                  "no result within 300 s for a single string", tags=["symptom:non-termination"]))
            finally:
                signal.alarm(0)

    if kind == "pump":
        # every pumped string alone under a 15 s alarm (they take microseconds); a suspect is re-run under
        # a 90 s alarm, and the first confirmed hang ends the unit (every further one would cost as much)
        for t in pump_texts(unit[1]):
            current[0] = t
            for limit in (15, 90):
                signal.alarm(limit)
                try:
                    seen.discard(t)
                    check_text(t, env, part, seen, deep=False)
                    signal.alarm(0)
                    if limit == 90:
                        part["counters"]["watchdog-false-alarms"] += 1
                    break
                except _Timeout:
                    signal.alarm(0)
                    if limit == 90:
                        part["violations"].append(
                            violation(PROP, "non-termination", {"text": t, "stage": "parse"},
                                      f"no result within 90 s for a string of {len(t)} characters ({t[:24]!r}...)", tags=["symptom:non-termination"]))
                finally:
                    signal.alarm(0)
            if any(v["kind"] == "non-termination" for v in part["violations"]):
                break
        attribute_known(part)
        return part
    if kind == "strings":
        _, alpha, prefix, n = unit
        alphabet = S.FULL if alpha == "FULL" else S.CORE
        if not prefix:
            batch([""])
        else:
            rest = max(0, n - len(prefix))
            # probe creation / activation (two fresh worlds per string) up to the quick bound of the
            # alphabet; longer strings go through parse() and select() only
            deep_len = 3 if alpha == "FULL" else 4
            short = (S.join(prefix + t) for k in range(rest + 1) for t in itertools.product(alphabet, repeat=k) if len(prefix) + k <= deep_len)
            batch(short, deep=True)
            long_ = (S.join(prefix + t) for k in range(rest + 1) for t in itertools.product(alphabet, repeat=k) if len(prefix) + k > deep_len)
            batch(long_, deep=False)
    elif kind == "value":
        _, pre, prefix, n = unit
        suf = VALUE_SUFFIX.get(pre, "")
        gen = (pre + " " + S.join(prefix + t) + suf for k in range(n) for t in itertools.product(VALUE_ALPHABET, repeat=k))
        batch(gen, deep=False)
    elif kind == "value-core":
        _, pre, prefix, n = unit
        suf = VALUE_SUFFIX.get(pre, "")
        rest = n - len(prefix)
        gen = (pre + " " + S.join(prefix + t) + suf for k in range(rest + 1) for t in itertools.product(VALUE_CORE, repeat=k))
        batch(gen, deep=False)
    elif kind == "edits":
        _, idx, dist = unit
        base = tokenize_words(valid_selectors(tier)[idx])
        if S.join(base).replace(" ", "") != valid_selectors(tier)[idx].replace(" ", ""):
            part["harness_errors"].append(f"tokenizer lost characters of {valid_selectors(tier)[idx]!r}")
        level1 = S.neighbours(base, S.FULL)
        batch([S.join(base)] + sorted(S.join(t) for t in level1))
        # distance 2 only around the hand-written seeds (the generated ones are close variants of each other)
        if dist >= 2 and idx < len(VALID_SEEDS):
            for t1 in sorted(level1):
                batch(sorted(S.join(t) for t in S.neighbours(t1, S.CORE, swaps=False)), deep=False)
    elif kind == "inject":
        for why, texts in INJECTIONS.items():
            for t in texts:
                for ov in (False, True):
                    must_refuse(t, make_env, part, why, ov)
        for t in NO_FOCUS_OVERRIDABLE:
            must_refuse(t, make_env, part, "no-focus-overridable", True)
            # ... also next to a selector that has a focus, in one overridable probe
            must_refuse(("f > x", t), make_env, part, "no-focus-overridable", True)
            must_refuse((t, "f > x"), make_env, part, "no-focus-overridable", True)
        # a parenthesised sequence among the arguments of a call keeps its members, wherever it stands
        from ptera.selector import parse

        for a, b in [("f((x, z), y)", "f(x, z, y)"), ("f(y, (x, z))", "f(y, x, z)"), ("f((x, z), y) > w", "f(x, z, y) > w"),
                     ("g(f((x, z)), y)", "g(f(x, z), y)"), ("f((x), (z))", "f(x, z)"), ("f(((x, z)), y)", "f(x, z, y)")]:
            part["cases"] += 1
            part["evaluations"] += 1
            part["steps"] += 1
            try:
                pa, pb = parse(a), parse(b)
            except SyntaxError:
                part["outcomes"]["group:syntax-error"] += 1
                continue
            except BaseException as e:
                part["violations"].append(violation(PROP, "internal:" + type(e).__name__, {"text": a, "stage": "parse", "inject": "group"},
                                                    f"{a!r}: {type(e).__name__}: {e}", tags=["inject:group"]))
                continue
            part["outcomes"]["group:parsed"] += 1
            if pa is not pb:
                part["violations"].append(violation(PROP, "members-dropped", {"text": a, "stage": "parse", "inject": "group"},
                                                    f"{a!r} compiles to {pa}, not to what {b!r} compiles to ({pb}): it is neither refused nor kept whole",
                                                    tags=["inject:group"]))
            else:
                part["nontrivial"] += 1
        for t in INJECTIONS["second-focus-without-first"]:
            # the verdict does not depend on what was attempted before on the same functions, nor on the
            # kind of probe asked for
            for order in ((True, False), (False, True)):
                env = make_env()
                for ov in order:
                    must_refuse(t, make_env, part, "second-focus-without-first", ov, env=env)
            must_refuse(t, make_env, part, "second-focus-without-first", True, probe_type="immediate")
        try:
            from pv.gen import selgen

            for why, t in selgen.c18_injections(tier):
                for ov in (False, True):
                    must_refuse(t, make_env, part, why, ov)
        except ImportError:
            pass
    if part["cases"] and not part["samples"]:
        part["samples"].append({"unit": repr(unit), "example_text": current[0] or next(iter(seen), "")})
    attribute_known(part)
    return part


def attribute_known(part):
    """E5 attribution: (exception class, innermost ptera function) call site, see DESIGN 2.3."""
    listed = open_findings(PROP)
    if not listed:
        return
    keep = []
    for v in part["violations"]:
        fid = None
        for e in listed.values():
            if all(t in v["tags"] for t in e["match"]["tags"]):
                fid = e["id"]
                break
        if fid:
            part["known"][fid] += 1
            part["known_examples"].setdefault(fid, v["case"])
        else:
            keep.append(v)
    part["violations"] = keep


def replay(case):
    part = new_partial()
    env = make_env()
    if "inject" in case and case.get("stage") is None:
        must_refuse(case["text"], make_env, part, case["inject"], case.get("overridable", False))
    elif "inject" in case:
        must_refuse(case["text"], make_env, part, case["inject"], case.get("overridable", False))
    else:
        signal.signal(signal.SIGALRM, _alarm)
        signal.alarm(120)
        try:
            check_text(case["text"], env, part, set())
        except _Timeout:
            return True, "no result within 120 s"
        finally:
            signal.alarm(0)
    if part["violations"]:
        return True, part["violations"][0]["detail"]
    return False, "no violation"

"""Shared pieces of the E1 properties: program cache, analysis, worlds, finding attribution."""
import ast
import symtable

from pv.core.runner import HarnessError, open_findings
from pv.explore import progspace as P
from pv.gen import minipy as M
from pv.gen import twin as TW

_PROGS = {}
# size bound (statement nodes) of the general menu; the thorough tier adds the core menu at three nodes
SIZE = {"quick": 2, "thorough": 2}


def all_programs(tier, size=None, only=None, must=None, key=None, tails=(True,), sigs=(None,)):
    k = key or (tier, size, only and tuple(sorted(only)), must and tuple(sorted(must)), tails, sigs)
    if k not in _PROGS:
        out = list(M.extra_programs()) if (only is None and must is None) else []
        for p in M.programs(size or SIZE[tier], tier, only=only, must=must, tails=tails, sigs=sigs):
            try:
                compile(p.src, "<minipy>", "exec")
            except SyntaxError:
                continue  # e.g. `global G` after a use of G: not a Python program
            if "class-global" in p.forms and "global-read" in p.forms:
                # f would read the global G after a nested class body rebound it during the call:
                # the documented exception of C01 (ptera reads globals at entry)
                continue
            out.append(p)
        _PROGS[k] = out
    return _PROGS[k]


def core3_sets(tier):
    """Thorough only: every program of up to three nodes over the core menu."""
    if tier != "thorough":
        return []
    return [("core3", dict(size=3, only=M.CORE3, key=("core3",)))]


def odd_set(tier):
    """Program set of rarely used forms and positions (yields inside tests, iterables, defaults, indexes;
    list targets of for/with; a None-valued global; a value whose == is neither free nor boolean)."""
    return ("odd", dict(size=2, only=M.ODD_BASE, must=M.ODD, key=("odd", tier)))


def count_programs(tier, **kw):
    return len(all_programs(tier, **kw))


def programs_slice(tier, lo, hi, **kw):
    return all_programs(tier, **kw)[lo:hi]


def flags_of(src):
    fl = set()
    tree = ast.parse(src)
    fdef = _find_f(tree)
    params = [a.arg for a in fdef.args.args]
    if "o" in params:
        fl.add("o")
    if "d" in params:
        fl.add("d")
    if "def make(" in src:
        fl.add("closure")
    if src.startswith("class _K:"):
        fl.update({"inclass", "under"})
    if src.startswith("class K:"):
        fl.add("inclass")
        if "    def make():" in src:
            fl.add("nested")
    if any(isinstance(n, (ast.Yield, ast.YieldFrom)) for n in _own_nodes(fdef)):
        fl.add("gen")
    if fdef.args.vararg is not None:
        fl.add("sig:rich")
    elif fdef.args.kwonlyargs:
        fl.add("sig:kwonly")
    return frozenset(fl)


def _find_f(tree):
    for n in ast.walk(tree):
        if isinstance(n, ast.FunctionDef) and n.name == "f":
            return n
    raise HarnessError("no f")


def _own_nodes(fdef):
    """Nodes of the function's own scope (nested defs/lambdas/classes are not entered;
    comprehensions are entered because an assignment expression there binds in f)."""
    stack = list(fdef.body)
    while stack:
        n = stack.pop()
        yield n
        for ch in ast.iter_child_nodes(n):
            if isinstance(ch, (ast.FunctionDef, ast.AsyncFunctionDef, ast.Lambda, ast.ClassDef)):
                continue
            stack.append(ch)


_ANALYSIS = {}


def analyse(prog):
    """Static facts about the program from Python's own tools (ast + symtable)."""
    if prog.src in _ANALYSIS:
        return _ANALYSIS[prog.src]
    try:
        compile(prog.src, "<minipy>", "exec")
    except SyntaxError:
        _ANALYSIS[prog.src] = None
        return None
    tree = ast.parse(prog.src)
    fdef = _find_f(tree)
    st = symtable.symtable(prog.src, "<minipy>", "exec")

    def find(tab):
        for ch in tab.get_children():
            if ch.get_name() == "f" and ch.get_type() == "function":
                return ch
            r = find(ch)
            if r is not None:
                return r
        return None

    ftab = find(st)
    a = fdef.args
    params = [p.arg for p in [*a.posonlyargs, *a.args, *a.kwonlyargs, a.vararg, a.kwarg] if p is not None]
    twin_src, sites = TW.twinify(prog.src)
    bound = []
    for sid, name, form, line in sites:
        if form in ("param", "attr", "index", "declare"):
            continue
        if name not in bound and name not in params:
            bound.append(name)
    loopvars = []
    for n in _own_nodes(fdef):
        if isinstance(n, ast.For):
            for nm in TW._Twin.target_names(n.target):
                if nm not in loopvars:
                    loopvars.append(nm)
    sym = {}
    for s in ftab.get_symbols():
        sym[s.get_name()] = s
    comp_vars = set()
    for n in _own_nodes(fdef):
        if isinstance(n, (ast.ListComp, ast.SetComp, ast.DictComp, ast.GeneratorExp)):
            for g in n.generators:
                comp_vars.update(TW._Twin.target_names(g.target))
    declared = set()
    for n in _own_nodes(fdef):
        if isinstance(n, (ast.Global, ast.Nonlocal)):
            declared.update(n.names)
    info = {
        "declared": declared,
        "params": params,
        "locals": bound,
        "loopvars": loopvars,
        "is_gen": "gen" in prog.flags,
        "twin_src": twin_src,
        "sites": sites,
        "symbols": sym,
        "comp_vars": comp_vars,
        "localnames": frozenset(n for n, s in sym.items() if s.is_local() and n not in comp_vars),
        "attr_stores": any(form == "attr" and name == "o.at" for sid, name, form, line in sites),
    }
    _ANALYSIS[prog.src] = info
    if len(_ANALYSIS) > 2000:
        for k in list(_ANALYSIS)[:1000]:
            del _ANALYSIS[k]
    return info


_WORLDS = {}


def get_world(prog, info, kind):
    key = (prog.src, kind)
    w = _WORLDS.get(key)
    if w is None:
        src = info["twin_src"] if kind == "twin" else prog.src
        w = P.World(src, info["localnames"])
        w.closure = "closure" in prog.flags
        _WORLDS[key] = w
    return w


def discard_world(prog, kind):
    _WORLDS.pop((prog.src, kind), None)


def drop_worlds(prog):
    for k in [k for k in _WORLDS if k[0] == prog.src]:
        del _WORLDS[k]


def fresh(w, info):
    w.reset()
    w.ns["SUBST"].clear()
    if w.closure:
        w.f = w.ns["f"] = w.ns["make"](10)
        w.orig_code = w.f.__code__


def outcome_class(obs):
    res = obs[0]
    if res[0] == "exc":
        return "exc:" + res[1]
    if res[0] == "gen":
        return "gen:" + "/".join(t[0] for t in res[1])[:40]
    return res[0]


# ------------------------------------------------------------------ known-finding attribution
#
# A finding names a trigger *form* of the program menu (e.g. 'unpack-gen') or a route, the
# symptom label, and a neutraliser: a replacement form that removes only the trigger.  A violation
# is attributed to the finding only if the program contains the trigger, the symptom matches and
# the neutralised program does NOT show a violation under the same input and route.

NEUTRAL = {
    # trigger form -> replacement form (same names bound, same values, trigger removed)
}


def neutralise(prog, trigger_forms, replacement):
    """Rebuild the program with every statement of a trigger form replaced."""
    raise NotImplementedError


def pred_finally_supersedes(prog):
    """A finally block of the function's own scope contains return / raise / assert / yield / break /
    continue: it can supersede a return (or exception) that is already under way."""
    fdef = _find_f(ast.parse(prog.src))
    for n in _own_nodes(fdef):
        if isinstance(n, ast.Try) and n.finalbody:
            stack = list(n.finalbody)
            while stack:
                m = stack.pop()
                if isinstance(m, (ast.Return, ast.Raise, ast.Assert, ast.Yield, ast.YieldFrom, ast.Break, ast.Continue)):
                    return True
                for ch in ast.iter_child_nodes(m):
                    if not isinstance(ch, (ast.FunctionDef, ast.Lambda, ast.ClassDef)):
                        stack.append(ch)
    return False


PREDICATES = {"finally-supersedes": pred_finally_supersedes}


def attribute(prop, v, prog, part, differs):
    listed = open_findings(prop)
    for fid, e in listed.items():
        m = e.get("match", {})
        if m.get("predicate") and not PREDICATES[m["predicate"]](prog):
            continue
        if m.get("tags") and not all(t in v["tags"] for t in m["tags"]):
            continue
        if m.get("config_routes") and v["case"].get("route") not in m["config_routes"]:
            continue
        forms = set(m.get("forms", []))
        if forms and not (forms & set(prog.forms)):
            continue
        if m.get("kind") and not v["kind"].startswith(m["kind"]):
            continue
        if m.get("detail_contains") and m["detail_contains"] not in str(v["detail"]):
            continue
        if m.get("config") and v["case"]["config"][0] not in m["config"]:
            continue
        neut = m.get("neutralise")
        if neut:
            p2 = rewrite_forms(prog, neut)
            if p2 is None:
                continue
            try:
                still = differs(p2)
            except HarnessError:
                raise
            if still:
                continue  # something else is wrong as well: report it
        part["known"][fid] += 1
        part["known_examples"].setdefault(fid, v["case"])
        return
    part["violations"].append(v)


def rewrite_forms(prog, mapping):
    """Re-generate the program text with statement templates swapped according to `mapping`
    ({trigger form: replacement form}); works on the source lines because every menu entry has a
    recognisable head.  Returns None if nothing changed."""
    src = prog.src
    new = src
    for trig, repl in mapping.items():
        for a, b in TEXT_REWRITES.get((trig, repl), []):
            new = new.replace(a, b)
    if new == src:
        return None
    forms = tuple(mapping.get(f, f) for f in prog.forms)
    return M.Prog(new, forms, prog.flags, prog.size)


TEXT_REWRITES = {}


# ------------------------------------------------------------------ running under probes


def probe_run(prog, info, selectors, x, driver, part=None, kind="inst", raw=False, overridable=False,
              setup=None, probe_type=None, late_raw=None):
    """Activate one probe per selector (in order), call f, deactivate in reverse order.

    Returns (obs, streams) where streams[i] is the list of frozen events of probe i, or
    (("activation-failed", exc type, message), None)."""
    from ptera import probing
    from pv.core import world

    w = get_world(prog, info, kind)
    fresh(w, info)
    streams = [[] for _ in selectors]
    probes = []

    def sub(i):
        def on(ev):
            if raw:
                streams[i].append({k: (tuple(c.names), tuple(P.freeze(v) for v in c.values)) for k, c in ev.items()})
            else:
                streams[i].append({k: P.freeze(v) for k, v in ev.items()})
        return on

    kept = []
    try:
        for i, s in enumerate(selectors):
            p = probing(s, env={"f": w.f, **w.ns}, raw=raw, overridable=overridable, probe_type=probe_type)
            p.subscribe(sub(i))
            if setup:
                setup(i, p)
            p.__enter__()
            probes.append(p)
        if late_raw is not None:
            # a raw probe on the first selector whose events are kept and only read after the call
            p = probing(selectors[0], env={"f": w.f, **w.ns}, raw=True)
            p.subscribe(kept.append)
            p.__enter__()
            probes.append(p)
    except BaseException as e:
        for p in reversed(probes):
            try:
                p.__exit__(None, None, None)
            except BaseException:
                pass
        discard_world(prog, kind)
        world.reset_context()
        return ("activation-failed", type(e).__name__, str(e)[:300]), None
    try:
        obs = P.run(w, w.f, x, driver, prog.flags)
    finally:
        for p in reversed(probes):
            try:
                p.__exit__(None, None, None)
            except BaseException:
                pass
    if late_raw is not None:
        for ev in kept:
            late_raw.append({k: (P.freeze(c.values[-1]) if c.values else "<no value>") for k, c in ev.items()})
    if world.clean_state_problems(w.f, w.orig_code):
        if part is not None:
            part["counters"]["world-rebuilt-unclean"] += 1
        discard_world(prog, kind)
        world.reset_context()
    return obs, streams


def twin_run(prog, info, x, driver, subst=None):
    """Run the reference twin; returns (obs, trace)."""
    w = get_world(prog, info, "twin")
    fresh(w, info)
    if subst:
        w.ns["SUBST"].update(subst)
    obs = P.run(w, w.f, x, driver, prog.flags)
    trace = list(w.ns["TRACE"])
    w.ns["SUBST"].clear()
    return obs, trace


def ref_run(prog, info, x, driver):
    w = get_world(prog, info, "ref")
    fresh(w, info)
    return P.run(w, w.f, x, driver, prog.flags)


def strip_twin_locals(obs):
    """The twin has two helper locals of its own; SNAP only reports LOCALNAMES so nothing to do."""
    return obs

"""C15 - the documented selector notations are interchangeable (E5)."""
from pv.core.runner import new_partial, violation
from pv.gen import selgen as G

PROP = "C15"
ENGINE = "E5 string-space explorer"
RULE = (
    "every selector of the IR (call trees up to the depth/width bound; captures drawn from names, "
    "aliases, tags, =values, ~predicates, $generic, *, #meta; zero or one focus anywhere) is printed in "
    "every documented spelling ('>' chains, right-nested parentheses, all-'!' call form, '() as r', "
    "'* as x', '(..)=c') times whitespace variants; all spellings must parse to the same object, which "
    "must decode to the IR; distinct IRs must give distinct objects. non-trivial = distinct IR "
    "selectors that have at least two different spellings"
)
ASSUMPTIONS = [
    "the IR->structure map (pv/gen/selgen.py expected()) is the reference meaning of the notation",
    "captures and children of one call are compared in written order, captures before children",
]
BOUNDS = {
    "quick": {"spaces (menu size, captures per call, calls, depth, children per call)": "A1 (15,2,1,1,0) A2 (15,1,2,2,1) A3 (6,2,2,2,1) B (6,1,3,3,2)", "whitespace": "minimal, spaced, newline-before-operator"},
    "thorough": {"spaces": "A1 (15,3,1,1,0) A2 (15,2,2,2,1) B (4,2,3,3,2) C (6,1,4,4,2)", "whitespace": "+ every single token boundary perturbed"},
}

ROOT_ELEMENTS = [
    # bare elements at the root: ($x == * as x, any re-spacing)
    (("el", "x", "x", None, None, (1,)), [["x"], ["(", "x", ")"], ["!", "x"]]),
    (("el", None, "v", None, None, (1,)), [["$", "v"], ["*", "as", "v"]]),
    (("el", None, "v", "@A", None, (1,)), [["$", "v", ":", "@A"], ["*", "as", "v", ":", "@A"]]),
    (("el", "x", "q", None, None, (1,)), [["x", "as", "q"]]),
]


SPACES = {
    "quick": [
        ("A1", G.FULL_CAPS, 2, 1, 1, 0),
        ("A2", G.FULL_CAPS, 1, 2, 2, 1),
        ("A3", G.SMALL_CAPS, 2, 2, 2, 1),
        ("B", G.SMALL_CAPS, 1, 3, 3, 2),
    ],
    "thorough": [
        ("A1", G.FULL_CAPS, 3, 1, 1, 0),
        ("A2", G.FULL_CAPS, 2, 2, 2, 1),
        ("B", G.SMALL_CAPS[:4], 2, 3, 3, 2),
        ("C", G.SMALL_CAPS, 1, 4, 4, 2),
    ],
}


SELECT_ENV = '''
from ptera import tag
from ptera.tools import lt

def f(x, y=1):
    z = x + y
    return z

def g(x):
    y = f(x)
    return y

class K:
    def m(self, x):
        y = x
        return y

obj = K()
other = K()
'''

# groups of texts that must resolve (select) to one and the same object (predicates are left out:
# evaluating `lt(3)` yields a new function object every time, so resolved selectors legitimately differ)
SELECT_GROUPS = [
    ["f > z", "f(!z)", "f() > z", "(f) > z"],
    ["g > f > z", "g > (f > z)", "g(f(!z))", "g() > f(!z)"],
    ["f(x) > z", "f(x, !z)"],
    ["f(x=1) > z", "f(x=1, !z)"],
    ["f > z:@A", "f(!z:@A)"],
    ["f() as r", "f(!#value as r)"],
    ["K.m > y", "K.m(!y)"],
    ["obj.m > y", "obj.m(!y)", "obj.m() > y"],
    ["other.m > y", "other.m(!y)"],
    ["g > obj.m > y", "g(obj.m(!y))"],
    ["f > $v", "f > * as v", "f(!$v)"],
]
# selectors of different meaning must not be merged
SELECT_DISTINCT = [("obj.m > y", "other.m > y"), ("obj.m > y", "K.m > y"), ("f(x=1) > z", "f(x=2) > z")]

# (text, name of the focus variable, names marked with the second focus)
FOCUS_CASES = [
    ("f(!a, !!b)", "a"), ("f(!!b, !a)", "a"), ("f(!!b) > a", "a"), ("g(!!x) > f > a", "a"), ("g(x, !!y) > f(!a)", "a"),
    ("f(a, !b)", "b"), ("f(a) > b", "b"), ("f > g > b", "b"), ("f(a, g(!b), h(c))", "b"), ("f(!b as q)", "b"),
]


def check_select_level(part):
    from ptera.selector import select, parse
    from pv.core import world

    ns = world.make_module(SELECT_ENV)
    for group in SELECT_GROUPS:
        part["cases"] += 1
        part["nontrivial"] += 1
        objs = []
        for text in group:
            for rep in range(2):  # compiling the same text twice must also give the same object
                part["evaluations"] += 1
                part["steps"] += 1
                try:
                    objs.append((text, select(text, env=ns)))
                except BaseException as e:
                    part["violations"].append(violation(
                        PROP, "spelling-rejected", {"select": text}, f"select({text!r}) raised {type(e).__name__}: {e}", tags=["select"]))
        for text, o in objs[1:]:
            if objs and o is not objs[0][1]:
                part["violations"].append(violation(
                    PROP, "spellings-differ", {"select": text, "other": objs[0][0]},
                    f"select({text!r}) and select({objs[0][0]!r}) are structurally equal but not the same object: {o} vs {objs[0][1]}",
                    tags=["select"]))
                break
        part["outcomes"]["select-group"] += 1
    for a, b in SELECT_DISTINCT:
        part["cases"] += 1
        part["evaluations"] += 2
        if select(a, env=ns) is select(b, env=ns):
            part["violations"].append(violation(PROP, "distinct-selectors-merged", {"select": a, "other": b},
                                                f"select({a!r}) and select({b!r}) are one object", tags=["select"]))
        part["outcomes"]["select-distinct"] += 1
    for text, fname in FOCUS_CASES:
        part["cases"] += 1
        part["evaluations"] += 1
        part["steps"] += 1
        sel = parse(text)
        main = getattr(sel, "main", None)
        got = getattr(main, "name", None)
        part["outcomes"]["focus-case"] += 1
        if got != fname or not getattr(sel, "focus", False):
            part["violations"].append(violation(
                PROP, "wrong-focus", {"text": text, "expected_focus": fname},
                f"the focus of {text!r} is {main!r}, expected the variable {fname!r}", tags=["focus"]))
        else:
            part["nontrivial"] += 1
    part["samples"].append({"select_groups": SELECT_GROUPS[:3], "focus_cases": [c[0] for c in FOCUS_CASES[:4]]})


def units(tier):
    out = [("root",), ("select",)]
    for name, menu, width, calls, depth, nch in SPACES[tier]:
        n = len(_ir_list(name, tier))
        chunk = 100 if tier == "quick" else 2000
        for lo in range(0, n, chunk):
            out.append(("ir", name, lo, lo + chunk))
    return out


_IR = {}


def _ir_list(name, tier):
    if (name, tier) not in _IR:
        _IR[(name, tier)] = list(G.enumerate_ir(*_space(name, tier)))
    return _IR[(name, tier)]


def _space(name, tier):
    for sp in SPACES[tier]:
        if sp[0] == name:
            return sp[1:]
    raise KeyError(name)


def check_ir(call, tier, part, registry):
    from ptera.selector import parse

    exp = G.expected(call)
    sps = G.spellings(call)
    part["cases"] += 1
    if len(sps) > 1:
        part["nontrivial"] += 1
    part["outcomes"][f"spellings={len(sps)}"] += 1
    first = None
    first_text = None
    for k, sp in enumerate(sps):
        # every spelling in minimal form; whitespace variants on the first two and the last one
        if k == 0:
            texts = G.renderings(sp, thorough=(tier == "thorough"))
        elif k in (1, len(sps) - 1):
            texts = G.renderings(sp)
        else:
            texts = [G.render(sp, "min")]
        for text in texts:
            part["evaluations"] += 1
            part["steps"] += 1
            try:
                obj = parse(text)
            except BaseException as e:
                part["outcomes"]["exception"] += 1
                part["violations"].append(violation(
                    PROP, "spelling-rejected", {"text": text, "expected": repr(exp)},
                    f"documented spelling {text!r} raised {type(e).__name__}: {e}", tags=["symptom:rejected"]))
                continue
            if first is None:
                first, first_text = obj, text
                dec = G.decode(obj)
                if dec != exp:
                    part["outcomes"]["decode-mismatch"] += 1
                    part["violations"].append(violation(
                        PROP, "wrong-structure", {"text": text, "expected": repr(exp)},
                        f"{text!r} compiled to {dec!r}, expected {exp!r}", tags=["symptom:structure"]))
            elif obj is not first:
                part["outcomes"]["not-identical"] += 1
                part["violations"].append(violation(
                    PROP, "spellings-differ", {"text": text, "other": first_text},
                    f"{text!r} and {first_text!r} compile to different objects: {obj} vs {first}",
                    tags=["symptom:identity"]))
    if first is not None:
        prev = registry.get(id(first))
        if prev is not None and prev[0] != exp:
            part["violations"].append(violation(
                PROP, "distinct-selectors-merged", {"text": first_text, "other": prev[1]},
                f"{first_text!r} and {prev[1]!r} are different selectors but compile to one object",
                tags=["symptom:merged"]))
        registry[id(first)] = (exp, first_text, first)


def work(unit, tier):
    from ptera.selector import parse

    part = new_partial()
    registry = {}
    if unit[0] == "select":
        check_select_level(part)
        return part
    if unit[0] == "root":
        for exp, sps in ROOT_ELEMENTS:
            part["cases"] += 1
            part["nontrivial"] += 1
            objs = []
            for sp in sps:
                for text in G.renderings(sp, thorough=True):
                    part["evaluations"] += 1
                    part["steps"] += 1
                    try:
                        obj = parse(text)
                    except BaseException as e:
                        part["violations"].append(violation(
                            PROP, "spelling-rejected", {"text": text, "expected": repr(exp)},
                            f"documented spelling {text!r} raised {type(e).__name__}: {e}", tags=["symptom:rejected"]))
                        continue
                    objs.append((text, obj))
                    if G.decode(obj) != exp:
                        part["violations"].append(violation(
                            PROP, "wrong-structure", {"text": text, "expected": repr(exp)},
                            f"{text!r} compiled to {G.decode(obj)!r}, expected {exp!r}", tags=["symptom:structure"]))
            for text, obj in objs[1:] if objs else []:
                if obj is not objs[0][1]:
                    part["violations"].append(violation(
                        PROP, "spellings-differ", {"text": text, "other": objs[0][0]},
                        f"{text!r} vs {objs[0][0]!r}", tags=["symptom:identity"]))
                else:
                    part["outcomes"]["root-identical"] += 1
        part["samples"].append({"root_elements": [G.render(s[1][0]) for s in ROOT_ELEMENTS]})
        return part
    _, name, lo, hi = unit
    menu, width, calls, depth, nch = _space(name, tier)
    import itertools

    for call in _ir_list(name, tier)[lo:hi]:
        if G.is_degenerate(call):
            continue
        for c in G.with_focus_choices(call):
            check_ir(c, tier, part, registry)
            if not part["samples"] and len(G.spellings(c)) > 3:
                part["samples"].append({"ir": repr(G.expected(c)), "spellings": [G.render(s) for s in G.spellings(c)][:8]})
    return part


def replay(case):
    from ptera.selector import parse

    if "select" in case or "expected_focus" in case:
        part = new_partial()
        check_select_level(part)
        key = case.get("select") or case.get("text")
        bad = [v for v in part["violations"] if key in (v["case"].get("select"), v["case"].get("text"))]
        return (True, bad[0]["detail"]) if bad else (False, "resolved selectors are identical / focus as marked")

    try:
        a = parse(case["text"])
    except BaseException as e:
        return True, f"{case['text']!r} raised {type(e).__name__}: {e}"
    if "other" in case:
        b = parse(case["other"])
        if a is not b:
            return True, f"{case['text']!r} -> {a}  but  {case['other']!r} -> {b}"
        return False, "same object"
    if repr(G.decode(a)) != case["expected"]:
        return True, f"decodes to {G.decode(a)!r}, expected {case['expected']}"
    return False, "structure as expected"

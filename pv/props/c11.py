"""C11 - tag selectors capture exactly the bindings that carry the tag (E1-style configuration space)."""
import itertools

from pv.core import world
from pv.core.runner import new_partial, violation
from pv.explore import progspace as P

PROP = "C11"
ENGINE = "E1 program-space explorer (tag placements)"
RULE = (
    "every function with <=3 (thorough 4) taggable sites (parameters, annotated assignments), every "
    "assignment of an annotation from {none, int, one tag, two tags} over {A,B,C} in string ('@A & @B') and "
    "object (tag.A & tag.B) spelling, both orders and with repetition, with/without an un-annotated "
    "re-assignment, x every selector in {$v:@T, *:@T, name:@T, $v} and T in {A,B,C,D}; plus two "
    "tooled functions with every pair of return annotations under '*:@T > a'; plus the tag-set algebra "
    "over all tuples of <=4 tags from a 4-tag alphabet. Oracle = the generator's own tag map. "
    "non-trivial = distinct (program, selector) cases that delivered at least one event"
)
ASSUMPTIONS = [
    "each variable is annotated at most once (two different annotations on one variable are not asserted)",
    "whether $v also reports #enter/#exit is not asserted; externals (helper globals) are filtered out",
    "the instrumented set is observed through a second, non-tooling overlay on f > $w",
]
BOUNDS = {"quick": {"sites": 3, "annotation_options": "14 (5 at the third site)"}, "thorough": {"sites": 4, "annotation_options": "17 (5 at the last site)"}}

# (source text of the annotation, set of tag names it carries)
ANN_QUICK = [
    (None, frozenset()),
    ("int", frozenset()),
    ('"@A"', frozenset("A")),
    ("tag.A", frozenset("A")),
    ('"@A & @B"', frozenset("AB")),
    ("tag.A & tag.B", frozenset("AB")),
    ('"@B & @A"', frozenset("AB")),
    ("tag.B & tag.A & tag.A", frozenset("AB")),
    ('"@C"', frozenset("C")),
    ("tag.C & tag.A", frozenset("AC")),
    # string sets spelled with other spacing around the ampersand
    ('"@A&@B"', frozenset("AB")),
    ('"@C& @A  &  @B"', frozenset("ABC")),
    # a tag set that has a name (AB = tag.A & tag.B at module level), used as it is and extended
    ("AB", frozenset("AB")),
    ("AB & tag.C", frozenset("ABC")),
]
# the third site takes a subset of the options (the full product is 14^3 programs)
ANN_LAST_SITE = [0, 2, 5, 12, 13]
ANN_THOROUGH = ANN_QUICK + [('"@B"', frozenset("B")), ('"@A&@A"', frozenset("A")), ("tag.B & tag.C", frozenset("BC"))]
TAGS = "ABCD"


def programs(tier):
    anns = ANN_QUICK if tier == "quick" else ANN_THOROUGH
    nsites = BOUNDS[tier]["sites"]
    sites = ["x", "a", "b"] if nsites == 3 else ["x", "y", "a", "b"]
    last = ANN_LAST_SITE
    for combo in itertools.product(*([range(len(anns))] * (len(sites) - 1) + [last])):
        for reassign in (False, True):
            yield tuple(zip(sites, combo)), reassign


def render(prog, tier):
    anns = ANN_QUICK if tier == "quick" else ANN_THOROUGH
    placement, reassign = prog
    d = {s: anns[i] for s, i in placement}

    def ann(s):
        return f": {d[s][0]}" if d[s][0] else ""

    params = f"x{ann('x')}, " + (f"y{ann('y')} = 5" if "y" in d else "y=5")
    lines = [f"def f({params}):"]
    for s, src in (("a", "x"), ("b", "y")):
        if d[s][0]:
            lines.append(f"    {s}{ann(s)} = E({ord(s)}, {src})")
        else:
            lines.append(f"    {s} = E({ord(s)}, {src})")
    if reassign:
        lines.append("    a = E(3, a + 1)")
    lines.append("    return E(99, (a, b))")
    tagmap = {s: d[s][1] for s in d}
    return "from ptera import tag\nAB = tag.A & tag.B\n" + "\n".join(lines) + "\n", tagmap


def units(tier):
    n = sum(1 for _ in programs(tier))
    chunk = 40 if tier == "quick" else 400
    return [("progs", lo, min(n, lo + chunk)) for lo in range(0, n, chunk)] + [("functions",), ("algebra",)]


def bindings(tagmap, reassign, x):
    """Ground truth binding sequence of f(x): (name, value, tags of *this* binding)."""
    y = 5
    seq = [("x", x, tagmap["x"])]
    if "y" in tagmap:
        seq.append(("y", y, tagmap["y"]))
    seq.append(("a", x, tagmap["a"]))
    seq.append(("b", y, tagmap["b"]))
    if reassign:
        seq.append(("a", x + 1, frozenset()))
    return seq


def run_probe(ns, sel, x, observer=False, outer=None, overridable=False):
    """Returns ('ok', [(name, value)...], instrumented names seen by the observer) or ('refused', exc type)."""
    from ptera import probing, BaseOverlay, Immediate
    from ptera.selector import SelectorError, select

    f = ns["f"]
    got = []
    seen = []

    def on(ev):
        for k, cap in ev.items():
            for n, v in zip(cap.names, cap.values):
                got.append((n, v))

    po = None
    if outer:
        # another probe that instruments more bindings than the tag selects
        po = probing(outer, env={"f": f, **ns}, raw=True)
        po.__enter__()
    try:
        p = probing(sel, env={"f": f, **ns}, raw=True, overridable=overridable)
        p.subscribe(on)
        p.__enter__()
    except SelectorError:
        if po:
            po.__exit__(None, None, None)
        world.reset_context()
        return ("refused", "SelectorError"), None
    except BaseException as e:
        world.reset_context()
        return ("error", type(e).__name__ + ": " + str(e)[:120]), None
    try:
        if observer:
            ol = BaseOverlay(Immediate(select("f > $w", env={"f": f}), trigger=lambda ev: seen.extend(ev["w"].names)))
            with ol:
                f(x)
        else:
            f(x)
    finally:
        p.__exit__(None, None, None)
        if po:
            po.__exit__(None, None, None)
    return ("ok", got), (seen if observer else None)


def run_pair(ns, tagged_sel, plain_sel, x, plain_first):
    """Both probes active on one call; returns what the plain one received, [(name, value)]."""
    from ptera import probing

    f = ns["f"]
    got = []
    pt = probing(tagged_sel, env={"f": f, **ns}, raw=True)
    pp = probing(plain_sel, env={"f": f, **ns}, raw=True)
    pp.subscribe(lambda ev: got.extend((n, v) for cap in ev.values() for n, v in zip(cap.names, cap.values)))
    order = [pp, pt] if plain_first else [pt, pp]
    try:
        for p in order:
            p.__enter__()
        f(x)
    except BaseException as e:
        world.reset_context()
        return ("error", type(e).__name__ + ": " + str(e)[:100])
    finally:
        for p in reversed(order):
            try:
                p.__exit__(None, None, None)
            except BaseException:
                pass
    return got


def check_program(prog, tier, part):
    src, tagmap = render(prog, tier)
    reassign = prog[1]
    ns = world.make_module(P.RUNTIME + "\n" + src, extra={"FREEZE": P.freeze})
    x = 3
    seq = bindings(tagmap, reassign, x)
    names = [s for s in tagmap]
    part["counters"]["programs"] += 1

    def report(kind, sel, detail):
        part["violations"].append(violation(PROP, kind, {"src": src, "selector": sel, "x": x}, detail, tags=[kind]))

    def case(sel):
        part["cases"] += 1
        part["evaluations"] += 1
        part["steps"] += 1

    for T in TAGS:
        exp = [(n, v) for n, v, tags in seq if T in tags]
        for sel in (f"f > $v:@{T}", f"f > *:@{T}"):
            case(sel)
            res, seen = run_probe(ns, sel, x, observer=sel.startswith("f > $v"))
            any_site = any(T in t for t in tagmap.values())
            part["outcomes"][f"generic:{res[0]}:{min(len(exp), 3)}"] += 1
            if not any_site:
                # no variable of f carries the tag: the statement does not say whether activation is
                # refused; if it is accepted it must deliver nothing
                if res[0] == "ok" and res[1]:
                    report("captured-untagged", sel, f"no binding carries @{T} but events {res[1]!r} were delivered")
                elif res[0] == "error":
                    report("internal-error", sel, res[1])
                continue
            if res[0] != "ok":
                report("refused-tagged", sel, f"bindings {exp!r} carry @{T} but the probe was not activated: {res[1]}")
                continue
            if res[1] != exp:
                report("wrong-tag-capture", sel, f"expected exactly {exp!r} (bindings annotated with @{T}), delivered {res[1]!r}")
            else:
                part["nontrivial"] += 1
            # the same selector as an overridable probe (events are delivered when the value is about to be
            # stored): the same bindings under their real names
            case(sel + " overridable")
            res3, _ = run_probe(ns, sel, x, overridable=True)
            if res3[0] != "ok" or res3[1] != exp:
                report("wrong-tag-capture-overridable", sel, f"probing(.., raw=True, overridable=True): expected {exp!r}, delivered {res3[1]!r}")
            # a plain probe on the first tagged name at the same time, activated before / after the tag probe
            tagged = [n for n, v, tags in seq if T in tags]
            if tagged and sel.startswith("f > $v"):
                nm = tagged[0]
                want_plain = [(n, v) for n, v, tags in seq if n == nm]
                for first in (True, False):
                    case(sel + " with f > " + nm)
                    got_plain = run_pair(ns, f"f > {nm}:@{T}", f"f > {nm}", x, first)
                    if got_plain != want_plain:
                        report("plain-probe-next-to-tagged", f"f > {nm}:@{T} + f > {nm}",
                               f"'f > {nm}' active together with 'f > {nm}:@{T}' ({'plain first' if first else 'tagged first'}): "
                               f"expected every binding {want_plain!r}, delivered {got_plain!r}")
            # the same tag probe while everything is instrumented by an unrestricted generic probe
            case(sel + " inside f > $y")
            res2, _ = run_probe(ns, sel, x, outer="f > $y")
            if res2[0] == "ok" and res2[1] != exp:
                report("wrong-tag-capture-when-fully-instrumented", sel,
                       f"inside probing('f > $y'): expected exactly {exp!r}, delivered {res2[1]!r}")
            elif res2[0] != "ok":
                report("refused-tagged", sel + " inside f > $y", str(res2[1]))
            if seen is not None:
                inst = sorted({n for n in seen if n in names})
                want = sorted({n for n, v, tags in seq if T in tags})
                if inst != want:
                    report("wrong-instrumented-set", sel, f"interactions fired for {inst!r}; only {want!r} carry @{T}")
        for vname, alias in [(n, False) for n in names] + [(n, True) for n in names]:
            # with an alias the tag still applies to the captured variable: `v as w:@T` is `(v as w):@T`
            sel = f"f > {vname} as w:@{T}" if alias else f"f > {vname}:@{T}"
            case(sel)
            res, _ = run_probe(ns, sel, x)
            expn = [(n, v) for n, v, tags in seq if n == vname and T in tags]
            has = T in tagmap[vname]
            part["outcomes"][f"named:{res[0]}:{has}"] += 1
            if has:
                if res[0] != "ok":
                    report("refused-tagged-name", sel, f"{vname} carries @{T} but activation failed: {res[1]}")
                elif res[1] != expn:
                    report("wrong-named-capture", sel, f"expected {expn!r}, delivered {res[1]!r}")
                else:
                    part["nontrivial"] += 1
            else:
                if res[0] == "ok" and res[1]:
                    report("named-captured-untagged", sel, f"{vname} does not carry @{T} but events {res[1]!r} were delivered")
                elif res[0] == "error":
                    report("internal-error", sel, res[1])
    # after all the tag-restricted probes on this function: the same names without a tag see every
    # binding again (an instrumented variant made for a tag must not be served for the untagged selector)
    for vname in names:
        sel = f"f > {vname}"
        case(sel)
        res, _ = run_probe(ns, sel, x)
        expn = [(n, v) for n, v, tags in seq if n == vname]
        if res[0] != "ok":
            report("untagged-refused", sel, str(res[1]))
        elif res[1] != expn:
            report("untagged-after-tagged", sel, f"after the tag probes on f: expected every binding {expn!r}, delivered {res[1]!r}")
        else:
            part["nontrivial"] += 1
    sel = "f > $v"
    case(sel)
    res, _ = run_probe(ns, sel, x)
    exp_all = [(n, v) for n, v, tags in seq]
    if res[0] != "ok":
        report("generic-refused", sel, str(res[1]))
    else:
        got = [(n, v) for n, v in res[1] if n in names]
        if got != exp_all:
            report("generic-misses-binding", sel, f"expected every binding {exp_all!r}, delivered {got!r}")
        else:
            part["nontrivial"] += 1
    if len(part["samples"]) < 2:
        part["samples"].append({"program": src, "tags": {k: sorted(v) for k, v in tagmap.items()}})


FUNC_SRC = '''
from ptera import tag, tooled
AB = tag.A & tag.B

@tooled
def f(x){rf}:
    a = E(1, x)
    return a

@tooled
def g(x){rg}:
    a = E(2, x + 10)
    return a

def make(k):
    # a tooled closure with the return annotation of f
    @tooled
    def h(x){rf}:
        a = E(3, x + k)
        return a
    return h

h = make(20)
'''


def check_functions(part, tier):
    from ptera import BaseOverlay, Immediate
    from ptera.selector import select

    # the string spelling is documented for parameters and annotated assignments only
    anns = [a for a in (ANN_QUICK if tier == "quick" else ANN_THOROUGH) if not (a[0] or "").startswith('"')]
    for (sf, tf), (sg, tg) in itertools.product(anns, repeat=2):
        src = FUNC_SRC.format(rf=f" -> {sf}" if sf else "", rg=f" -> {sg}" if sg else "")
        ns = world.make_module(P.RUNTIME + "\n" + src, extra={"FREEZE": P.freeze})
        for T in TAGS:
            part["cases"] += 1
            part["evaluations"] += 1
            part["steps"] += 2
            got = []
            sel = f"*:@{T} > a"
            try:
                ol = BaseOverlay(Immediate(select(sel, env=ns), trigger=lambda ev: got.append(ev["a"].value)))
                with ol:
                    ns["f"](1)
                    ns["g"](1)
                    ns["h"](1)
            except BaseException as e:
                world.reset_context()
                part["violations"].append(violation(PROP, "function-tag-error", {"src": src, "selector": sel}, f"{type(e).__name__}: {e}", tags=["function-tag"]))
                continue
            exp = ([1] if T in tf else []) + ([11] if T in tg else []) + ([21] if T in tf else [])
            part["outcomes"][f"function-tag:{len(exp)}"] += 1
            if got != exp:
                part["violations"].append(violation(
                    PROP, "wrong-function-tag", {"src": src, "selector": sel},
                    f"return annotations f:{sf} g:{sg}; expected events {exp!r}, delivered {got!r}", tags=["function-tag"]))
            elif exp:
                part["nontrivial"] += 1


def check_algebra(part):
    from ptera.tags import get_tags, match_tag, tag, TagSet

    alphabet = "ABCD"
    tuples = [t for k in range(1, 5) for t in itertools.product(alphabet, repeat=k)]
    built = {}
    for t in tuples:
        part["cases"] += 1
        part["evaluations"] += 1
        part["steps"] += 1
        obj = get_tags(*t)
        merged = getattr(tag, t[0])
        for n in t[1:]:
            merged = merged & getattr(tag, n)
        built[t] = (obj, merged)
        for T in alphabet:
            want = T in set(t)
            for form, o in (("get_tags", obj), ("&", merged)):
                if match_tag(getattr(tag, T), o) != want:
                    part["violations"].append(violation(
                        PROP, "tag-algebra", {"tags": list(t), "query": T, "form": form},
                        f"match_tag({T}, {form} of {t}) = {not want}, expected {want}", tags=["algebra"]))
        part["outcomes"][f"algebra:{len(set(t))}"] += 1
        part["nontrivial"] += 1
    # building a larger set leaves the operands as they were (tag sets are values)
    for t in tuples:
        if len(t) < 3:
            continue
        part["cases"] += 1
        part["evaluations"] += 1
        part["steps"] += 1
        left = getattr(tag, t[0]) & getattr(tag, t[1])
        right = getattr(tag, t[2]) & getattr(tag, t[-1])
        both = left & right
        both2 = left & getattr(tag, t[2])
        for T in alphabet:
            for nm, o, members in (("left operand", left, set(t[:2])), ("right operand", right, {t[2], t[-1]})):
                if match_tag(getattr(tag, T), o) != (T in members):
                    part["violations"].append(violation(
                        PROP, "tag-algebra-aliasing", {"tags": list(t), "query": T, "operand": nm},
                        f"after building ({t[0]} & {t[1]}) & ({t[2]} & {t[-1]}), the {nm} matches {T}: {T not in members}", tags=["algebra"]))
    # order and repetition are irrelevant: equal sets <=> equal (==) tag objects, for sets of >= 2 tags
    for t1, t2 in itertools.combinations(tuples, 2):
        s1, s2 = set(t1), set(t2)
        if len(s1) < 2 and len(s2) < 2:
            continue
        a, b = built[t1][1], built[t2][1]
        if isinstance(a, TagSet) and isinstance(b, TagSet):
            part["steps"] += 1
            if (a == b) != (s1 == s2):
                part["violations"].append(violation(
                    PROP, "tag-algebra-eq", {"a": list(t1), "b": list(t2)},
                    f"{t1} == {t2} gives {a == b}, sets equal: {s1 == s2}", tags=["algebra"]))


def work(unit, tier):
    part = new_partial()
    if unit[0] == "functions":
        check_functions(part, tier)
    elif unit[0] == "algebra":
        check_algebra(part)
    else:
        _, lo, hi = unit
        for prog in itertools.islice(programs(tier), lo, hi):
            check_program(prog, tier, part)
    return part


def replay(case):
    part = new_partial()
    if "tags" in case or "a" in case:
        check_algebra(part)
        bad = [v for v in part["violations"]]
    elif "def g(" in case.get("src", ""):
        check_functions(part, "thorough")
        bad = [v for v in part["violations"] if v["case"]["src"] == case["src"] and v["case"]["selector"] == case["selector"]]
    else:
        # re-run every program of both tiers that renders to this source
        bad = []
        for tier in ("quick", "thorough"):
            for prog in programs(tier):
                if render(prog, tier)[0] == case["src"]:
                    check_program(prog, tier, part)
                    bad = [v for v in part["violations"] if v["case"]["selector"] == case["selector"]]
                    break
            if bad:
                break
    if bad:
        return True, bad[0]["detail"]
    return False, "tag captures as the tag map predicts"

"""C07 - total probes emit one complete record per outermost call (E2 + RSS total)."""
import itertools

from pv.core import world
from pv.core.runner import new_partial, violation
from pv.explore import calltree as CT
from pv.models import rss as R
from pv.props import e2common as E

PROP = "C07"
ENGINE = "E2 call-tree explorer + reference selector semantics (total)"
RULE = (
    "every ordered labelled call tree with <= n nodes, optionally with one raising node (the raise "
    "happens after the nested calls and before the second binding, so that variable is never bound in "
    "that call) x every focus-free chain selector up to depth 3 and focus-free sibling selector, and "
    "every focused selector of C03 forced to probe_type='total'; records of probing(selector, raw=True) "
    "are attributed to the activation exit they precede and compared with the RSS: one record per "
    "ending root call holding all values of every capture in order (nested and sibling calls under that "
    "root only), none if a capture never got a value; forced total: one record per (embedding, focus "
    "binding) with the complete outer values (multiset per exit). non-trivial = distinct (tree, selector) "
    "pairs with at least one expected record. The probe is made in turn by probing(selector), by "
    "probing('A > p', selector) - one probe holding a focused and a focus-free selector - and by global_probe()"
)
ASSUMPTIONS = [
    "records are attributed to root exits through their position in the program's own activation log",
    "records of one exit in forced-total mode are compared as a multiset",
]
BOUNDS = {"quick": {"tree_nodes": 4, "chain_depth": 3, "raising_nodes": "0 or 1", "forced_total_selectors": "depth <= 2 chains + siblings"},
          "thorough": {"tree_nodes": 5, "chain_depth": 3, "raising_nodes": "0 or 1", "forced_total_selectors": "all C03 selectors"}}


def selectors(tier):
    out = [("total", s) for s in E.chain_selectors(3, focus=False)]
    out += [("total", s) for s in E.sibling_selectors(focus=False, deep=(tier == "thorough"))]
    out += [("total", s) for s in E.value_selectors(focus=False)]
    if tier == "quick":
        out += [("forced", s) for s in E.chain_selectors(2)] + [("forced", s) for s in E.sibling_selectors()]
    else:
        out += [("forced", s) for s in E.chain_selectors(3)] + [("forced", s) for s in E.sibling_selectors(deep=True)]
    return out


def units(tier):
    n = len(selectors(tier))
    chunk = 3
    return [("sels", lo, min(n, lo + chunk)) for lo in range(0, n, chunk)]


_TREES = {}


def tree_list(tier):
    if tier not in _TREES:
        _TREES[tier] = list(CT.trees(BOUNDS[tier]["tree_nodes"], raising=True))
    return _TREES[tier]


def split_records(trace):
    """(clean trace, {aid: [records delivered just before that activation's exit]})."""
    clean, pending, by_exit = [], [], {}
    stray = []
    for ev in trace:
        if ev[0] == "record":
            pending.append(ev[1])
        elif ev[0] == "bind" and ev[2] == "#value":
            # the helper logs the return value after the call returned, i.e. after the records
            # published at the activation's exit: not a separation between records and their exit
            clean.append(ev)
        else:
            if ev[0] == "exit" and pending:
                by_exit[ev[1]] = pending
                pending = []
            elif pending:
                stray += pending
                pending = []
            clean.append(ev)
    stray += pending
    return clean, by_exit, stray


def check_selector(mode, sel, trees, part, entry="probing"):
    """entry: how the probe is made - probing(selector); probing(focused selector, selector): one probe
    for a focused and a focus-free selector; global_probe(selector, ...)."""
    from ptera import probing, global_probe

    R.self_check()
    tw = E.tree_world()
    text = R.render(sel)
    tr = tw.ns["TRACE"]

    def on(ev):
        if entry == "mixed" and set(ev) == {"p"}:
            return  # an event of the focused companion selector 'A > p' (entry "mixed")
        tr.append(("record", {k: list(c.values) for k, c in ev.items()}))

    try:
        ptype = "total" if mode == "forced" else None
        if entry == "global":
            p = global_probe(text, env=dict(tw.funcs), raw=True, probe_type=ptype)
            p.subscribe(on)
        else:
            texts = ("A > p", text) if entry == "mixed" else (text,)
            p = probing(*texts, env=dict(tw.funcs), raw=True, probe_type=ptype)
            p.subscribe(on)
            p.__enter__()
    except BaseException as e:
        world.reset_context()
        E.reset_tree_world()
        part["violations"].append(violation(PROP, "activation", {"selector": text, "mode": mode}, f"{type(e).__name__}: {e}", tags=["activation"]))
        return
    try:
        for tree in trees:
            try:
                raw = tw.run(tree)
            except BaseException as e:
                part["violations"].append(violation(
                    PROP, "call-failed", {"selector": text, "mode": mode, "entry": entry, "tree_repr": repr(tree)},
                    f"{CT.describe(tree)}: {type(e).__name__}: {e}", tags=["call-failed"]))
                continue
            trace, by_exit, stray = split_records(raw)
            E.check_static(tree, trace)
            part["cases"] += 1
            part["evaluations"] += 1
            part["steps"] += len(trace)
            bad = None
            if mode == "total":
                exp = {aid: [rec] for t, aid, rec in R.total(trace, sel)}
                if exp:
                    part["nontrivial"] += 1
                part["outcomes"][f"total:records={min(len(exp), 3)}:raising={tree[2] is not None}"] += 1
                if stray:
                    bad = ("record-outside-exit", f"records {stray!r} were not delivered at an activation's exit")
                elif exp != by_exit:
                    bad = ("wrong-total-records", f"expected per root exit {exp!r}, delivered {by_exit!r}")
            else:
                exp = {aid: recs for t, aid, recs in R.total_focused(trace, sel) if recs}
                if exp:
                    part["nontrivial"] += 1
                part["outcomes"][f"forced:exits={min(len(exp), 3)}:raising={tree[2] is not None}"] += 1
                c = lambda recs: sorted(E.canon({k: tuple(v) for k, v in r.items()}) for r in recs)
                if stray:
                    bad = ("record-outside-exit", f"records {stray!r} were not delivered at an activation's exit")
                elif {a: c(r) for a, r in exp.items()} != {a: c(r) for a, r in by_exit.items()}:
                    bad = ("wrong-forced-total-records", f"expected per root exit {exp!r}, delivered {by_exit!r}")
            if bad:
                part["violations"].append(violation(
                    PROP, bad[0], {"selector": text, "mode": mode, "entry": entry, "tree_repr": repr(tree)},
                    f"{text} [{mode}, made by {entry}] on {CT.describe(tree)}: {bad[1]}", tags=[bad[0]]))
    finally:
        try:
            if entry == "global":
                p.deactivate()
            else:
                p.__exit__(None, None, None)
        except BaseException as e:
            part["violations"].append(violation(PROP, "deactivation", {"selector": text, "mode": mode}, f"{type(e).__name__}: {e}", tags=["deactivation"]))
    E.ensure_clean(tw)


def work(unit, tier):
    part = new_partial()
    _, lo, hi = unit
    for n, (mode, sel) in enumerate(selectors(tier)[lo:hi]):
        # the entry point alternates: probing(); a probe that also has a focused selector (focus-free
        # selectors only); global_probe()
        k = (lo + n) % 3
        entry = "probing" if k == 0 else ("mixed" if (k == 1 and mode == "total") else "global")
        check_selector(mode, sel, tree_list(tier), part, entry=entry)
        if len(part["samples"]) < 2:
            part["samples"].append({"selector": R.render(sel), "mode": mode, "example_tree": CT.describe(tree_list(tier)[300])})
    return part


def replay(case):
    part = new_partial()
    tree = eval(case["tree_repr"]) if "tree_repr" in case else None
    for mode, sel in selectors("thorough"):
        if R.render(sel) == case["selector"] and mode == case["mode"]:
            check_selector(mode, sel, [tree] if tree else tree_list("quick"), part, entry=case.get("entry", "probing"))
            if part["violations"]:
                return True, part["violations"][0]["detail"]
            return False, "records equal the RSS expectation"
    return False, "selector not in the enumerated space"

"""C16 - declared-but-unset variables are supplied from outside or fail loudly; ABSENT never leaks (E1)."""
import itertools

from pv.core import world
from pv.core.runner import new_partial, violation, HarnessError
from pv.explore import progspace as P
from pv.gen import minipy as M
from pv.props import e1common as C

PROP = "C16"
ENGINE = "E1 program-space explorer + twin with explicit DECLARE"
RULE = (
    "every MiniPy program over {assign, bare declaration (used / unused / tagged), read of an undefined "
    "global, read of a global defined after the function, if, if-else, for, try-except, return} up to the "
    "size bound that contains at least one of the special forms x inputs {0,1,2} x route {fully tooled + "
    "overlay, probe on another variable (partial instrumentation) + overlay, overridable probe on the "
    "declared variable, probe on the undefined global, generic probe} x every subset of declared "
    "variables supplied (constant, or only on odd inputs); oracle = twin where a declaration is "
    "`v = SUPPLIED[v]` or `raise NameError`: same NameError-or-result, same effect log (so the failure is "
    "at the declaration), PteraNameError fields, and a scan of results/events/effect log for the marker. "
    "non-trivial = distinct cases in which a declaration was reached (supplied or failing) or an "
    "undefined global was read"
)
ASSUMPTIONS = [
    "NameError, UnboundLocalError and PteraNameError are one family (all are NameError)",
    "an un-instrumented function is plain Python (a bare annotation is a no-op there) and is not part of the space",
]
BOUNDS = {"quick": {"program_size": 3}, "thorough": {"program_size": 4}}
CHUNK = 8
MENU = frozenset({"assign", "declare", "declare-use", "declare-tagged", "declare-attr", "undef-read", "late-read", "if", "if-else",
                  "for", "try-except", "try-nameerror", "return", "raise", "none-global-read", "declare-ann-raises"})
SPECIAL = frozenset({"declare", "declare-use", "declare-tagged", "declare-attr", "undef-read", "late-read", "none-global-read", "declare-ann-raises"})
PRELUDE = "from ptera import tag\n"


def kw(tier):
    return dict(size=BOUNDS[tier]["program_size"], only=MENU, must=SPECIAL, key=("c16", tier))


def units(tier):
    n = C.count_programs(tier, **kw(tier))
    return [("progs", lo, min(n, lo + CHUNK)) for lo in range(0, n, CHUNK)]


def declared_vars(info):
    return [(name, sid) for sid, name, form, line in info["sites"] if form == "declare"]


def norm(obs):
    """NameError family -> one label without message (messages legitimately differ)."""
    res = obs[0]
    if res[0] == "exc" and res[1] in ("NameError", "UnboundLocalError", "PteraNameError"):
        res = ("exc", "NameError-family")
    return (res,) + tuple(obs[1:])


def supply_value(name, x, mode):
    if mode == "const":
        return 700 + ord(name[0])
    if mode == "odd":
        return (800 + ord(name[0])) if x % 2 == 1 else None
    return None


def reference(prog, info, supplied, x, late_deleted=False):
    def declare(sid, name):
        mode = supplied.get(name)
        v = supply_value(name, x, mode) if mode else None
        if v is None:
            raise NameError(name)
        return v

    tw = C.get_world(prog, info, "twin")
    tw.ns["LATER"] = 5
    if late_deleted:
        tw.ns.pop("LATER", None)
    obs, trace = C.twin_run(prog, info, x, None, subst={"declare": declare})
    return obs, trace


ROUTES = ["tooled+overlay", "partial+overlay", "oprobe", "probe-undef", "generic", "probe-ext", "ctx-probe", "stacked", "total"]


def instrumented(prog, info, route, supplied, x, part, late_deleted=False):
    """Returns (obs, exception object or None, events list) / (('activation-failed',...), None, None)."""
    from ptera import probing, tooled, Overlay
    from ptera.selector import select
    from ptera.utils import ABSENT

    kind = "tooled16" if route == "tooled+overlay" else "inst"
    wd = C.get_world(prog, info, kind)
    C.fresh(wd, info)
    wd.ns["LATER"] = 5
    fn = wd.f
    events = []
    active = []
    current = [x]
    warmup = [False]
    try:
        if route == "tooled+overlay":
            fn = getattr(wd, "instrumented_fn", None)
            if fn is None:
                fn = wd.instrumented_fn = tooled(wd.f)
        env = {**wd.ns, "f": fn}
        if route == "partial+overlay":
            p = probing("f > x", env=env)
            p.subscribe(lambda ev: events.append({k: P.freeze(v) for k, v in ev.items()}))
            p.__enter__()
            active.append(p)
        if route == "probe-undef":
            p = probing("f > UNDEF", env=env)
            p.subscribe(lambda ev: events.append({k: P.freeze(v) for k, v in ev.items()}))
            p.__enter__()
            active.append(p)
        if route == "probe-ext":
            # a helper global of the function is instrumented, nothing else
            p = probing("f > E", env=env)
            p.subscribe(lambda ev: events.append({k: P.freeze(v) for k, v in ev.items()}))
            p.__enter__()
            active.append(p)
        if route == "ctx-probe":
            # every declared variable as a plain *context* capture of the other bound names
            dv = [n for n, _ in declared_vars(info)]
            others = [n for n in info["params"] + info["locals"] if n not in dv]
            for o in others:
                p = probing(f"f({', '.join(dv)}) > {o}" if dv else f"f > {o}", env=env)
                p.subscribe(lambda ev: events.append({k: P.freeze(v) for k, v in ev.items()}))
                p.__enter__()
                active.append(p)
        if route == "total":
            # a total probe over every declared variable: a record needs every capture to have been bound
            dv = [n for n, _ in declared_vars(info)]
            p = probing(f"f(x, {', '.join(dv)})" if dv else "f(x)", env=env, raw=True)
            p.subscribe(lambda ev: events.append({k: tuple(P.freeze(v) for v in c.values) for k, c in ev.items()}))
            p.__enter__()
            active.append(p)
        if route == "stacked":
            p = probing("f > x", env=env)
            p.__enter__()
            active.append(p)
        if route == "generic":
            p = probing("f > $v", env=env)
            p.subscribe(lambda ev: events.append({k: P.freeze(v) for k, v in ev.items()}))
            p.__enter__()
            active.append(p)
        for name, mode in supplied.items():
            sel = select(f"f > {name}", env=env)
            if route == "oprobe":
                p = probing(f"f > {name}", env=env, overridable=True)
                if mode == "const":
                    p.override(supply_value(name, x, "const"))
                else:
                    # declines on even inputs (decided when the event arrives: `current` is the input
                    # of the call that is running)
                    p.filter(lambda ev: current[0] % 2 == 1).override(supply_value(name, 1, "odd"))
                    warmup[0] = True
                p.__enter__()
                active.append(p)
            elif mode == "const":
                ol = Overlay.tweaking({sel: supply_value(name, x, "const")})
                ol.__enter__()
                active.append(ol)
                if route == "stacked":
                    # a later-activated handler that declines must not erase the supplied value
                    p = probing(f"f > {name}", env=env, overridable=True)
                    p.subscribe(lambda ev: None)
                    p.__enter__()
                    active.append(p)
                    ol2 = Overlay.rewriting({sel: (lambda ev: ABSENT)})
                    ol2.__enter__()
                    active.append(ol2)
            else:
                val = supply_value(name, x, "odd")
                ol = Overlay.rewriting({sel: (lambda ev, val=val: ABSENT if val is None else val)})
                ol.__enter__()
                active.append(ol)
        if route == "oprobe" and not supplied:
            # a plain overridable probe that declines everything, on the first declared variable
            dv = declared_vars(info)
            target = dv[0][0] if dv else "x"
            p = probing(f"f > {target}", env=env, overridable=True)
            p.subscribe(lambda ev: events.append({k: P.freeze(v) for k, v in ev.items()}))
            p.__enter__()
            active.append(p)
    except BaseException as e:
        for a in reversed(active):
            try:
                a.__exit__(None, None, None)
            except BaseException:
                pass
        C.discard_world(prog, kind)
        world.reset_context()
        return ("activation-failed", type(e).__name__, str(e)[:300]), None, None
    exc = None
    try:
        if late_deleted:
            # the global existed when the probes were activated and is gone when the function is called
            wd.ns.pop("LATER", None)
        if warmup[0]:
            # the same probes first see a call with the other parity (supplied when this one is declined
            # and vice versa): what one call was given must not carry over to the next
            current[0] = x + 1
            try:
                fn(x + 1, *([wd.ns["OBJ"](5)] if "o" in prog.flags else []))
            except BaseException:
                pass
            current[0] = x
            del events[:]
        obs = P.run(wd, fn, x, None, prog.flags)
        if obs[0][0] == "exc":
            wd.reset()
            if not late_deleted:
                wd.ns["LATER"] = 5
            try:
                fn(x, *([wd.ns["OBJ"](5)] if "o" in prog.flags else []))
            except BaseException as e:
                exc = e
                try:
                    exc._pv_info = e.info() if hasattr(e, "info") else None
                except BaseException as e2:
                    exc._pv_info = e2
    finally:
        for a in reversed(active):
            try:
                a.__exit__(None, None, None)
            except BaseException:
                pass
    if exc is not None and hasattr(exc, "info"):
        # after every probe has ended the error must still expose the same information
        try:
            exc._pv_info_late = exc.info()
        except BaseException as e2:
            exc._pv_info_late = e2
    if kind == "inst" and world.clean_state_problems(wd.f, wd.orig_code):
        part["counters"]["world-rebuilt-unclean"] += 1
        C.discard_world(prog, kind)
    world.reset_context()
    return obs, exc, events


def check_case(prog, info, route, supplied, x, part, record=True, late_deleted=False):
    from ptera.transform import PteraNameError
    from ptera import tag

    robs, trace = reference(prog, info, supplied, x, late_deleted)
    obs, exc, events = instrumented(prog, info, route, supplied, x, part, late_deleted)
    reached = any(t[0] == "bind" and t[3] == "declare" for t in trace) or robs[0][:2] == ("exc", "NameError")
    if record:
        part["cases"] += 1
        part["evaluations"] += 1
        part["steps"] += len(trace) + 1
        if reached:
            part["nontrivial"] += 1
        part["outcomes"][f"{route}:{norm(robs)[0][0]}:{'reached' if reached else 'skip'}"] += 1
    if events is None:
        return ("activation", f"activation failed: {obs[1]}: {obs[2]}")
    blob = repr(obs) + repr(events)
    if "<<ABSENT>>" in blob:
        return ("absent-marker-leaked", f"ptera's ABSENT marker reached user-visible data: {blob[:300]}")
    from ptera.transform import PteraNameError as _PNE
    entry = []
    if isinstance(exc, _PNE) and exc.varname in (("UNDEF", "LATER") if late_deleted else ("UNDEF",)) and not obs[1]:
        entry = ["entry-error:UNDEF"]  # raised while pre-loading the undefined global, before the body ran
    if norm(obs) != norm(robs):
        lab, det = P.first_difference(norm(robs), norm(obs))
        return ("differs-from-declared-semantics:" + str(lab), f"twin (supplied={supplied}) vs instrumented: {det}", *entry)
    # identification of the variable and the function when the failure is at a declaration
    if robs[0][:2] == ("exc", "NameError") and isinstance(exc, BaseException):
        failing = robs[0][2]
        decl = dict((n, s) for n, s in declared_vars(info))
        if failing in decl:
            if not isinstance(exc, PteraNameError):
                return ("declaration-error-not-identified", f"declaration of {failing} failed with plain {type(exc).__name__}: {exc}")
            if exc.varname != failing:
                return ("declaration-error-wrong-variable", f"error names {exc.varname!r}, the unset declaration is {failing!r}", *entry)
            fname = getattr(exc.function, "__name__", None)
            if fname != "f":
                return ("declaration-error-wrong-function", f"error names function {exc.function!r}")
            inf = getattr(exc, "_pv_info", None)
            if isinstance(inf, BaseException) or inf is None:
                return ("declaration-error-info", f"info() raised {type(inf).__name__}: {inf}")
            late = getattr(exc, "_pv_info_late", inf)
            if isinstance(late, BaseException) or late != inf:
                return ("declaration-error-info", f"info() after the probes ended gives {late!r}, while they were active {inf!r}")
            want_ann = tag.A if f"{failing}: tag.A" in prog.src else int
            if f"{failing}: GNONE.nope" in prog.src:
                pass  # an annotation that cannot be evaluated has no recorded value: not asserted
            elif inf.get("annotation") is not want_ann and inf.get("annotation") != want_ann:
                return ("declaration-error-annotation", f"info() annotation {inf.get('annotation')!r}, declared {want_ann!r}")
            if inf.get("provenance") != "body":
                return ("declaration-error-provenance", f"info() provenance {inf.get('provenance')!r}")
    return None


def configs(prog, info, tier):
    dv = [n for n, _ in declared_vars(info)]
    has_undef = "UNDEF" in prog.src
    subsets = []
    for r in range(len(dv) + 1):
        for sub in itertools.combinations(dv, r):
            for modes in itertools.product(("const", "odd"), repeat=len(sub)):
                subsets.append(dict(zip(sub, modes)))
    out = []
    for route in ROUTES:
        if route == "probe-undef" and not has_undef:
            continue
        for sup in subsets:
            if route in ("probe-undef", "generic", "probe-ext", "ctx-probe", "total") and sup:
                continue
            if route == "stacked" and (not sup or any(m != "const" for m in sup.values())):
                continue
            out.append((route, sup))
    return out


def check_program(prog, tier, part):
    prog = prog._replace(src=PRELUDE + prog.src)
    info = C.analyse(prog)
    if info is None:
        return
    part["counters"]["programs"] += 1
    for route, sup in configs(prog, info, tier):
        for x in (0, 1, 2):
          for late_deleted in ((False, True) if "LATER" in prog.src else (False,)):
            bad = check_case(prog, info, route, sup, x, part, late_deleted=late_deleted)
            if bad:
                case = {"src": prog.src, "forms": list(prog.forms), "x": x, "route": route, "supplied": sup, "late_deleted": late_deleted}
                vio = violation(PROP, bad[0], case, bad[1], tags=["route:" + route] + list(bad[2:]))
                C.attribute(PROP, vio, prog, part, lambda p2: True)
    if len(part["samples"]) < 2:
        part["samples"].append({"program": prog.src, "configs": [(r, s) for r, s in configs(prog, info, tier)][:6]})
    C.drop_worlds(prog)


def work(unit, tier):
    part = new_partial()
    _, lo, hi = unit
    for prog in C.programs_slice(tier, lo, hi, **kw(tier)):
        check_program(prog, tier, part)
    return part


def replay(case):
    src = case["src"]
    prog = M.Prog(src, tuple(case["forms"]), C.flags_of(src), 0)
    info = C.analyse(prog)
    part = new_partial()
    bad = check_case(prog, info, case["route"], case["supplied"], case["x"], part, late_deleted=case.get("late_deleted", False))
    C.drop_worlds(prog)
    if bad:
        return True, bad[1]
    return False, "behaves like the twin with explicit declarations"

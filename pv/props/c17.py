"""C17 - a probe's stream opens once, completes once at exit, and is silent outside (E3)."""
import os
import subprocess
import sys

from pv.core import world
from pv.core.runner import new_partial, violation
from pv.explore import history as H

PROP = "C17"
ENGINE = "E3 history explorer (explicit-state BFS over replayed histories)"
RULE = (
    "breadth-first search over all operation sequences up to the depth bound over {attach stage k in "
    "(accum, count, max, last, map+accum) - before activation or while active -, activate, call f, "
    "deactivate (normally / with an exception passed to __exit__), re-activation attempt (while active "
    "and after exit), second deactivation, call after exit} on a probe f > a, replayed on a fresh world; "
    "model: a stage attached at time t sees exactly the events of calls made after t and inside the active "
    "window, a reduction publishes exactly one value (the fold of what it saw) at deactivation and never "
    "again, a refused re-activation changes nothing, and neither does the refused activation of another probe on the "
    "same function (which never receives anything); the same search again in a world where an earlier probe ended "
    "while a generator started under it is still suspended, with {advance, close, drop} of that generator as "
    "extra operations (the ended probe's outputs never change, the probe under test is undisturbed); plus a subprocess per scenario for probes still "
    "active at interpreter exit"
)
ASSUMPTIONS = [
    "max()/last() of an empty window have no defined result: whether completion raises is not asserted, "
    "only the state afterwards (clean) and the other stages' outputs",
    "what a second deactivation returns or raises is not asserted; it must publish nothing and leave the state clean",
]
BOUNDS = {"quick": {"depth": 6, "stages": 2, "stale_stages": 1}, "thorough": {"depth": 7, "stages": 3, "stale_stages": 1, "merge_audit_depth": 2}}

SRC = '''
def f(x):
    a = x * 2
    return a

def t(n):
    for i in range(n):
        v = i * 10
        yield v
'''
KINDS = ["accum", "count", "max", "last", "map"]


class World:
    def __init__(self, stale=False):
        self.ns = world.make_module(SRC)
        self.f = self.ns["f"]
        self.orig = self.f.__code__
        from ptera import probing

        self.stale = None
        self.stale_outs = None
        if stale:
            # an earlier probe whose with-block ended while a generator started under it is still suspended
            with probing("t > v", env={"t": self.ns["t"]}) as p1:
                seen, cnt = [], []
                p1["v"].subscribe(seen.append)
                p1["v"].count().subscribe(cnt.append)
                self.stale = self.ns["t"](4)
                next(self.stale)
                next(self.stale)
            self.stale_outs = (seen, cnt)

        self.probe = probing("f > a", env={"f": self.f})
        # a second probe whose activation is always refused (its second selector names a variable f does
        # not have): it never becomes active, so its pipeline never sees anything
        self.bad = probing("f > a", "f > nope", env={"f": self.f})
        self.bad_out = []
        self.bad["a"].subscribe(self.bad_out.append)
        self.outs = []   # one output list per stage
        self.calls = 0
        self.undefined = set()


class System:
    def __init__(self, max_stages, stale=False):
        self.max_stages = max_stages
        self.stale = stale

    # model: (status, stages=((kind, seen tuple),...), calls, yields of the stale generator or "none")
    def initial_model(self):
        return ("new", (), 0, 2 if self.stale else "none")

    def enabled(self, m):
        status, stages, calls, stale = m
        ops = []
        if stale != "none":
            ops += [("stale", "next"), ("stale", "close"), ("stale", "drop")]
        if status != "done" and len(stages) < self.max_stages:
            ops += [("stage", k) for k in KINDS]
        if status == "new":
            ops.append(("act",))
        else:
            ops.append(("react",))
        if status == "active":
            ops += [("deact", "normal"), ("deact", "exc")]
        if status == "done":
            ops.append(("deact2",))
        ops.append(("call",))
        ops.append(("refused-other",))
        return ops

    def step_model(self, m, op):
        status, stages, calls, stale = m
        if op[0] == "stage":
            return (status, stages + ((op[1], ()),), calls, stale), "ok"
        if op[0] == "act":
            return ("active", stages, calls, stale), "ok"
        if op[0] in ("react", "refused-other"):
            return m, "refused"
        if op[0] == "stale":
            stale = (stale + 1 if stale < 4 else "none") if op[1] == "next" else "none"
            return (status, stages, calls, stale), "ok"
        if op[0] == "call":
            x = calls + 1
            if status == "active":
                stages = tuple((k, seen + (x * 2,)) for k, seen in stages)
            return (status, stages, x, stale), ("result", x * 2)
        if op[0] == "deact":
            return ("done", stages, calls, stale), "ok"
        if op[0] == "deact2":
            return m, "ok"
        raise KeyError(op)

    def expected_outputs(self, m):
        """Per stage: expected output list, or None when it is not defined."""
        status, stages, calls, stale = m
        out = []
        for k, seen in stages:
            if k == "accum":
                out.append(list(seen))
            elif k == "map":
                out.append([v + 1 for v in seen])
            elif status != "done":
                out.append([])
            elif k == "count":
                out.append([len(seen)])
            elif k == "max":
                out.append([max(seen)] if seen else None)
            elif k == "last":
                out.append([seen[-1]] if seen else None)
        return out

    def model_key(self, m):
        status, stages, calls, stale = m
        return (status, tuple((k, len(s)) for k, s in stages), stale)

    def outcome_class(self, m):
        return (m[0], len(m[1]))

    # implementation
    def fresh(self):
        world.reset_context()
        return World(self.stale)

    def apply(self, w, op):
        try:
            if op[0] == "stage":
                out = []
                w.outs.append(out)
                p = w.probe["a"]
                k = op[1]
                if k == "accum":
                    p.subscribe(out.append)
                elif k == "map":
                    p.map(lambda v: v + 1).subscribe(out.append)
                elif k == "count":
                    p.count().subscribe(out.append)
                elif k == "max":
                    p.max().subscribe(out.append)
                elif k == "last":
                    p.last().subscribe(out.append)
                return "ok"
            if op[0] == "act":
                w.probe.__enter__()
                return "ok"
            if op[0] == "stale":
                import gc

                if op[1] == "next":
                    try:
                        next(w.stale)
                    except StopIteration:
                        w.stale = None
                elif op[1] == "close":
                    w.stale.close()
                    w.stale = None
                else:
                    w.stale = None
                    gc.collect()
                return "ok"
            if op[0] == "react":
                try:
                    w.probe.__enter__()
                except Exception:
                    return "refused"
                return "accepted"
            if op[0] == "refused-other":
                from ptera.selector import SelectorError

                try:
                    w.bad.__enter__()
                except SelectorError:
                    return "refused"
                return "accepted"
            if op[0] == "call":
                w.calls += 1
                return ("result", w.f(w.calls))
            if op[0] == "deact":
                try:
                    if op[1] == "normal":
                        w.probe.__exit__(None, None, None)
                    else:
                        e = ValueError("block left by an exception")
                        w.probe.__exit__(ValueError, e, None)
                except Exception as e:
                    # allowed only when a reduction had nothing to reduce
                    return "ok" if "no elements" in str(e).lower() or "Sequence" in type(e).__name__ else ("raised", type(e).__name__, str(e)[:100])
                return "ok"
            if op[0] == "deact2":
                try:
                    w.probe.__exit__(None, None, None)
                except Exception:
                    pass
                return "ok"
        except BaseException as e:
            return ("raised", type(e).__name__, str(e)[:200])
        raise KeyError(op)

    def impl_key(self, w):
        from ptera.overlay import HandlerCollection
        from ptera import probe as pm

        from pv.core import introspect as I

        return (
            I.current_collection() is not None,
            I.stack_state(w.f),
            w.f.__code__ is w.orig,
            I.n_global_probes(),
            getattr(w.probe, "_activated", None),
            len(getattr(w.probe, "_observers", ())),
            tuple(len(o) for o in w.outs),
            w.stale is not None,
        )

    def invariant(self, w, m):
        from ptera.overlay import HandlerCollection
        from ptera import probe as pm

        probs = []
        exp = self.expected_outputs(m)
        for i, (want, got) in enumerate(zip(exp, w.outs)):
            if want is None:
                continue
            if list(got) != want:
                probs.append(f"stage {i} ({m[1][i][0]}): expected output {want!r}, observed {list(got)!r}")
        if w.bad_out:
            probs.append(f"the probe whose activation was refused received events: {w.bad_out!r}")
        if w.stale_outs is not None and (w.stale_outs[0], w.stale_outs[1]) != ([0, 10], [2]):
            probs.append(f"the probe that ended before this history received or published something afterwards: {w.stale_outs!r}")
        if m[0] != "active":
            probs += world.clean_state_problems(w.f, w.orig)
            from pv.core import introspect as I

            if I.n_global_probes():
                probs.append("global_probes is not empty")
        else:
            from pv.core import introspect as I

            if I.stack_of(w.f) is not None and I.stack_state(w.f)[0] not in (1, None):
                probs.append("the active probe is not counted exactly once on f")
            if w.f.__code__ is w.orig:
                probs.append("f runs its original code although the probe is active")
        return probs

    def close(self, w):
        if w.stale is not None:
            try:
                w.stale.close()
            except BaseException:
                pass
        try:
            from pv.core import introspect as I

            if I.global_probes() is None or w.probe in I.global_probes():
                w.probe.__exit__(None, None, None)
        except BaseException:
            pass
        world.reset_context()


ATEXIT_SCRIPT = '''
import sys
sys.path.insert(0, {root!r})
from ptera import global_probe
def f(x):
    a = x * 2
    return a
p = global_probe("f > a")
{stages}
for i in range({calls}):
    f(i + 1)
print("end-of-main", flush=True)
'''

ATEXIT_SCENARIOS = [
    ("count", 'p["a"].count().subscribe(lambda v: print("count", v, flush=True))', 3, ["end-of-main", "count 3"]),
    ("max", 'p["a"].max().subscribe(lambda v: print("max", v, flush=True))', 3, ["end-of-main", "max 6"]),
    ("last+count", 'p["a"].last().subscribe(lambda v: print("last", v, flush=True))\np["a"].count().subscribe(lambda v: print("count", v, flush=True))', 2, ["end-of-main", "last 4", "count 2"]),
    ("count-empty", 'p["a"].count().subscribe(lambda v: print("count", v, flush=True))', 0, ["end-of-main", "count 0"]),
    ("accum", 'p["a"].subscribe(lambda v: print("ev", v, flush=True))', 2, ["ev 2", "ev 4", "end-of-main"]),
    ("two-probes", 'q = global_probe("f > a")\nq["a"].count().subscribe(lambda v: print("qcount", v, flush=True))\np["a"].sum().subscribe(lambda v: print("sum", v, flush=True))', 2, None),
]


def check_atexit(part):
    import ptera

    root = os.path.dirname(os.path.dirname(os.path.abspath(ptera.__file__)))
    import tempfile

    for name, stages, calls, expected in ATEXIT_SCENARIOS:
        part["cases"] += 1
        part["evaluations"] += 1
        part["steps"] += calls + 1
        with tempfile.NamedTemporaryFile("w", suffix=".py", delete=False) as fh:
            fh.write(ATEXIT_SCRIPT.format(root=root, stages=stages, calls=calls))
            path = fh.name
        try:
            r = subprocess.run([sys.executable, path], capture_output=True, text=True, timeout=60)
        finally:
            os.unlink(path)
        lines = [ln for ln in r.stdout.splitlines() if ln.strip()]
        part["outcomes"]["atexit:" + name] += 1
        if expected is None:
            ok = sorted(lines) == sorted(["end-of-main", "qcount 2", "sum 6"]) and lines[0] == "end-of-main"
            expected = ["end-of-main", "qcount 2 / sum 6 in any order"]
        else:
            ok = lines == expected
        if r.returncode != 0 or not ok:
            part["violations"].append(violation(
                PROP, "atexit-completion", {"scenario": name},
                f"probe still active at interpreter exit ({name}): expected output {expected!r}, got {lines!r}, rc={r.returncode}, stderr={r.stderr[-300:]!r}",
                tags=["atexit"]))
        else:
            part["nontrivial"] += 1
    part["samples"].append({"atexit_scenarios": [s[0] for s in ATEXIT_SCENARIOS]})


def units(tier):
    n = 1 if tier == "quick" else 2  # shard by the first one / two operations
    out = [("bfs", h, False) for h in H.first_ops(System(BOUNDS[tier]["stages"]), n)]
    out += [("bfs", h, True) for h in H.first_ops(System(BOUNDS[tier]["stale_stages"], True), n)]
    return out + [("atexit",)]


def work(unit, tier):
    part = new_partial()
    if unit[0] == "atexit":
        check_atexit(part)
        return part
    system = System(BOUNDS[tier]["stale_stages" if unit[2] else "stages"], unit[2])
    res = H.explore(system, BOUNDS[tier]["depth"], audit_depth=BOUNDS[tier].get("merge_audit_depth", 0), prefix=unit[1])
    part["cases"] = res.states
    part["steps"] = res.transitions
    part["evaluations"] = res.transitions
    part["nontrivial"] = res.states
    part["counters"]["replayed-steps"] = res.replayed_steps
    part["counters"]["merged-into-seen-state"] = res.merged
    part["counters"]["max-depth"] = res.max_depth
    part["counters"]["unexpanded-error-states"] = res.unexpanded_error_states
    part["counters"]["merge-audit-pairs"] = res.audit_pairs
    for k, v in res.outcomes.items():
        part["outcomes"][str(k)] += v
    part["samples"] = res.samples[:4]
    for rep, other, op in res.audit_failures:
        part["harness_errors"].append(f"merge audit: {rep!r} and {other!r} were merged but differ after {op!r}")
    for kind, hist, detail in res.violations:
        part["violations"].append(violation(PROP, kind, {"history": [list(o) for o in hist], "stale": unit[2]}, detail, tags=["kind:" + kind]))
    return part


def replay(case):
    if "scenario" in case:
        part = new_partial()
        check_atexit(part)
        bad = [v for v in part["violations"] if v["case"]["scenario"] == case["scenario"]]
        return (True, bad[0]["detail"]) if bad else (False, "completed once at exit")
    system = System(3, case.get("stale", False))
    hist = tuple(tuple(o) for o in case["history"])
    w, m, problem, at = H.run_history(system, hist)
    system.close(w)
    if problem:
        return True, problem[1]
    return False, "history replays without a problem"

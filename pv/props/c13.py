"""C13 - method selectors bind to the right function and the right receiver (E6 configurations)."""
import itertools

from pv.core import world
from pv.core.runner import new_partial, violation

PROP = "C13"
ENGINE = "E6 configuration explorer"
RULE = (
    "every population of <= 3 (thorough 4) instances drawn from 9 receiver kinds (plain, false in a boolean context, value-equal with and without a type guard, value-equal and "
    "hashable, value-equal and unhashable, subclass inheriting the method, __slots__, receiver parameter "
    "not called self) x every probed target (the class attribute, each instance through obj.meth, a "
    "functools.wraps-decorated method, a property, a dotted holder.inner.obj.meth path, selectors written "
    "without env= inside a function whose local object / class shadows a module-level one) x every call "
    "sequence of length <= 3 (4) over the population plus a same-named module-level decoy function. "
    "Oracle: class selector -> every call of that function; object selector -> exactly the calls whose "
    "receiver *is* that object, reported under the receiver parameter's name; decoy never. "
    "non-trivial = distinct (population, target, sequence) cases in which at least one call had to be "
    "filtered out and at least one delivered"
)
ASSUMPTIONS = ["identity (`is`) of the receiver is the reference for 'that object'"]
BOUNDS = {"quick": {"population": 3, "sequence": 3}, "thorough": {"population": 4, "sequence": 4}}

SRC = '''
import functools
from ptera import tooled

def deco(fn):
    @functools.wraps(fn)
    def wrapper(*args, **kwargs):
        return fn(*args, **kwargs)
    return wrapper

GLOB = 5

def meth(x):
    v = x * 100
    return v

class Plain:
    def meth(self, x):
        v = x + 1
        return v
    def uses_global(self, x):
        v = x + GLOB
        return v
    def outer(self, other, x):
        w = other.meth(x)
        return w
    @deco
    def wrapped(self, x):
        v = x + 2
        return v
    @deco
    @deco
    def wrapped_twice(self, x):
        v = x + 4
        return v
    @deco
    @tooled
    def wrapped_tooled(self, x):
        v = x + 7
        return v
    @property
    def prop(self):
        v = 3
        return v

class Sub(Plain):
    pass

class Eq:
    def __init__(self, k):
        self.k = k
    def __eq__(self, other):
        return isinstance(other, Eq) and other.k == self.k
    def __hash__(self):
        return hash(self.k)
    def meth(self, x):
        v = x + 1
        return v

class EqNoHash:
    def __init__(self, k):
        self.k = k
    def __eq__(self, other):
        return isinstance(other, EqNoHash) and other.k == self.k
    def meth(self, x):
        v = x + 1
        return v

class EqDuck:
    """value equality without a type guard (duck typing)"""
    def __str__(self):
        return "duck"
    def __eq__(self, other):
        return str(self) == str(other)
    def __hash__(self):
        return 7
    def meth(self, x):
        v = x + 1
        return v

class EqAttr:
    """value equality that assumes the other operand has the same attribute"""
    def __init__(self, k):
        self.k = k
    def __eq__(self, other):
        return self.k == other.k
    def __hash__(self):
        return hash(self.k)
    def meth(self, x):
        v = x + 1
        return v

class Slots:
    __slots__ = ("k",)
    def meth(self, x):
        v = x + 1
        return v

class Other:
    def meth(this, x):
        v = x + 1
        return v

class Falsy:
    """an instance that is false in a boolean context (an empty container, a null object)"""
    def __bool__(self):
        return False
    def __len__(self):
        return 0
    def meth(self, x):
        v = x + 1
        return v
    @deco
    def wrapped(self, x):
        v = x + 2
        return v

class Holder:
    pass

# selectors written without env=: names are looked up in the scope where the probe is created
shadow = Plain()
only_global = Plain()

def scope_shadowed(probing, log):
    shadow = Plain()  # a local with the same name as the module-level object
    with probing("shadow.meth > v") as p:
        p.subscribe(log.append)
        shadow.meth(1)
        globals()["shadow"].meth(2)
    return shadow

def scope_local_only(probing, log):
    only_local = Plain()
    with probing("only_local.meth > v") as p:
        p.subscribe(log.append)
        only_local.meth(1)
        shadow.meth(2)
    return only_local

def scope_global_only(probing, log):
    with probing("only_global.meth > v") as p:
        p.subscribe(log.append)
        only_global.meth(1)
        shadow.meth(2)
    return only_global

def scope_class_shadowed(probing, log):
    class Plain:  # a local class with the name of a module-level class
        def meth(self, x):
            v = x + 50
            return v
    with probing("Plain.meth > v") as p:
        p.subscribe(log.append)
        Plain().meth(1)
        globals()["Plain"]().meth(2)
    return None

def drive(objs, seq):
    n = 0
    for i in seq:
        n += 1
        if i == "decoy":
            meth(n - 1)
        else:
            objs[i].meth(n - 1)
    return n

def area_deco(fn):
    @functools.wraps(fn)
    def wrapper(self):
        return fn(self) * 2
    return wrapper

class Box:
    @property
    @area_deco
    def area(self):
        a = 21
        return a
'''

KINDS = ["Plain", "Sub", "Eq", "EqNoHash", "Slots", "Other", "EqDuck", "EqAttr", "Falsy"]
RECEIVER_NAME = {"Other": "this"}


def make_instance(ns, kind):
    cls = ns[kind]
    if kind in ("Eq", "EqNoHash", "EqAttr"):
        return cls(1)  # all instances of these kinds are equal to each other
    return cls()


def units(tier):
    b = BOUNDS[tier]
    pops = [p for n in range(1, b["population"] + 1) for p in itertools.combinations_with_replacement(KINDS, n)]
    return [("pop", p, b["sequence"]) for p in pops] + [("paths",)]


def class_of(kind):
    return "Plain" if kind == "Sub" else kind


def run_case(ns, objs, kinds, target, seq, part, nested=False):
    """target: ('class', kind) | ('obj', index).  seq: tuple of indices into objs or 'decoy'.
    nested: the calls are made by the instrumented driver and the selector is `drive > <target> > v`."""
    from ptera import probing

    env = dict(ns)
    for i, o in enumerate(objs):
        env[f"o{i}"] = o
    if target[0] == "class":
        text = f"{class_of(target[1])}.meth > v"
    else:
        text = f"o{target[1]}.meth > v"
    if nested:
        text = "drive > " + text
    got = []
    try:
        p = probing(text, env=env)
        p.subscribe(got.append)
        p.__enter__()
    except BaseException as e:
        world.reset_context()
        return ("activation", f"{text}: {type(e).__name__}: {e}")
    try:
        calls = []
        if nested:
            ns["drive"](objs, seq)
            for n, s in enumerate(seq):
                calls.append(("decoy", None, n) if s == "decoy" else (s, objs[s], n))
        else:
            for n, s in enumerate(seq):
                if s == "decoy":
                    ns["meth"](n)
                    calls.append(("decoy", None, n))
                else:
                    objs[s].meth(n)
                    calls.append((s, objs[s], n))
    except BaseException as e:
        try:
            p.__exit__(None, None, None)
        except BaseException:
            pass
        world.reset_context()
        return ("call-failed", f"{text} with population {kinds} and calls {seq}: {type(e).__name__}: {e}"), False
    finally:
        try:
            p.__exit__(None, None, None)
        except BaseException as e:
            world.reset_context()
            return ("deactivation", f"{text}: {type(e).__name__}: {e}")
    exp = []
    for s, o, n in calls:
        if s == "decoy":
            continue
        if target[0] == "class":
            if class_of(kinds[s]) == class_of(target[1]):
                exp.append({"v": n + 1})
        else:
            if o is objs[target[1]]:
                rn = RECEIVER_NAME.get(kinds[s], "self")
                exp.append({"v": n + 1, rn: o})
    same = len(got) == len(exp) and all(
        set(g) == set(e) and all((g[k] is e[k]) if k != "v" else g[k] == e[k] for k in e) for g, e in zip(got, exp)
    )
    filtered = len([c for c in calls if c[0] != "decoy"]) > len(exp) > 0
    if not same:
        show = lambda evs: [{k: (v if k == "v" else f"<{type(v).__name__}#{[i for i, o in enumerate(objs) if o is v]}>") for k, v in e.items()} for e in evs]
        return ("wrong-receiver-filter", f"{text} with population {kinds} and calls {seq}: expected {show(exp)!r}, delivered {show(got)!r}"), filtered
    return None, filtered


def work(unit, tier):
    part = new_partial()
    ns = world.make_module(SRC, pin=True)
    if unit[0] == "paths":
        check_paths(ns, part)
        check_focus_variants(ns, part)
        check_simultaneous(ns, part)
        check_scopes(ns, part)
        attribute_known(part)
        return part
    _, kinds, seqlen = unit
    objs = [make_instance(ns, k) for k in kinds]
    targets = [("class", k) for k in sorted({class_of(k) for k in kinds})] + [("obj", i) for i in range(len(objs))]
    alphabet = list(range(len(objs))) + ["decoy"]
    for target in targets:
        for n in range(1, seqlen + 1):
            for seq in itertools.product(alphabet, repeat=n):
                part["cases"] += 1
                part["evaluations"] += 1
                part["steps"] += n
                for nested in ((False, True) if n == seqlen or n == 1 else (False,)):
                    r = run_case(ns, objs, kinds, target, seq, part, nested=nested)
                    bad, filtered = r if isinstance(r[0], (tuple, type(None))) and len(r) == 2 and not isinstance(r[0], str) else (r, False)
                    if filtered:
                        part["nontrivial"] += 1
                    part["outcomes"][f"{target[0]}:{'bad' if bad else 'ok'}:{filtered}:{nested}"] += 1
                    if bad:
                        tk = kinds[target[1]] if target[0] == "obj" else target[1]
                        part["violations"].append(violation(
                            PROP, bad[0], {"population": list(kinds), "target": list(target), "seq": list(seq), "nested": nested}, bad[1],
                            tags=[bad[0], "target-kind:" + tk]))
    if not part["samples"]:
        part["samples"].append({"population": list(kinds), "targets": [list(t) for t in targets], "alphabet": [str(a) for a in alphabet]})
    return part


def check_focus_variants(ns, part):
    """Object selectors whose focus fires before / after the receiver parameter is bound, and
    object selectors at two levels."""
    from ptera import probing

    a, b = ns["Plain"](), ns["Plain"]()
    env = dict(ns, a=a, b=b)
    cases = [
        # (selector, action, expected number of events, tag)
        ("a.meth > #value", lambda: (a.meth(1), b.meth(2), a.meth(3)), 2, "focus-after-receiver"),
        ("a.meth(x) > v", lambda: (b.meth(2), a.meth(3)), 1, "focus-after-receiver"),
        ("a.meth > x", lambda: (b.meth(2), a.meth(3), b.meth(4)), 1, "focus-after-receiver"),
        ("a.meth > #enter", lambda: (a.meth(1), b.meth(2), a.meth(3)), 2, "focus-before-receiver"),
        ("a.uses_global > GLOB", lambda: (a.uses_global(1), b.uses_global(2)), 1, "focus-before-receiver"),
        ("a.meth > #exit", lambda: (a.meth(1), b.meth(2)), 1, "focus-after-receiver"),
        ("a.outer > b.meth > v", lambda: (a.outer(b, 1), b.outer(b, 2), a.outer(a, 3)), 1, "nested-object-selectors"),
        ("a.outer > Plain.meth > v", lambda: (a.outer(b, 1), b.outer(b, 2), a.outer(a, 3)), 2, "outer-object-inner-class"),
        ("Plain.outer > b.meth > v", lambda: (a.outer(b, 1), b.outer(b, 2), a.outer(a, 3)), 2, "outer-class-inner-object"),
    ]
    for text, action, n, tag in cases:
        part["cases"] += 1
        part["evaluations"] += 1
        part["steps"] += 1
        got = []
        try:
            with probing(text, env=env) as p:
                p.subscribe(got.append)
                action()
        except BaseException as e:
            world.reset_context()
            part["violations"].append(violation(PROP, "variant-error", {"variant": text}, f"{text}: {type(e).__name__}: {e}", tags=[tag]))
            continue
        part["outcomes"][f"variant:{tag}:{len(got) == n}"] += 1
        if len(got) != n:
            ncalls = len(action())  # the action is a tuple of calls
            symptom = "symptom:never-fires" if not got else ("symptom:fires-for-every-receiver" if len(got) == ncalls else "symptom:other-count")
            part["violations"].append(violation(
                PROP, "wrong-receiver-filter", {"variant": text},
                f"{text}: expected {n} events (calls on the probed receiver only), delivered {len(got)}: {got!r}", tags=[tag, symptom]))
        else:
            part["nontrivial"] += 1


def check_scopes(ns, part):
    """Selectors written inside a function without env=: the object / class named is the one visible
    in that scope (a local wins over a module-level name)."""
    from ptera import probing

    for fname, want_v in (("scope_shadowed", 2), ("scope_local_only", 2), ("scope_global_only", 2), ("scope_class_shadowed", 51)):
        part["cases"] += 1
        part["evaluations"] += 1
        part["steps"] += 2
        log = []
        try:
            obj = ns[fname](probing, log)
        except BaseException as e:
            world.reset_context()
            part["violations"].append(violation(PROP, "scope-error", {"scope": fname}, f"{fname}: {type(e).__name__}: {e}", tags=["scope"]))
            continue
        exp = [{"v": want_v, "self": obj}] if obj is not None else [{"v": want_v}]
        ok = len(log) == len(exp) and all(set(g) == set(e) and all((g[k] is e[k]) if k == "self" else g[k] == e[k] for k in e) for g, e in zip(log, exp))
        part["outcomes"]["scope:" + ("ok" if ok else "bad")] += 1
        if ok:
            part["nontrivial"] += 1
        else:
            part["violations"].append(violation(PROP, "wrong-scope-events", {"scope": fname},
                                                f"{fname}: expected {exp!r}, delivered {log!r}", tags=["scope"]))


def check_simultaneous(ns, part):
    """The method and the same-named module-level function probed at the same time (two probes, and two
    selectors of one probe): each stream gets its own calls only."""
    from ptera import probing

    a, b = ns["Plain"](), ns["Plain"]()
    env = dict(ns, a=a, b=b)
    combos = [
        (["Plain.meth > v", "meth > v"], [[{"v": 2}, {"v": 3}], [{"v": 500}]]),
        (["meth > v", "Plain.meth > v"], [[{"v": 500}], [{"v": 2}, {"v": 3}]]),
        (["a.meth > v", "meth > v"], [[{"v": 2, "self": a}], [{"v": 500}]]),
        (["Eq.meth > v", "Plain.meth > v", "meth > v"], [[], [{"v": 2}, {"v": 3}], [{"v": 500}]]),
    ]
    for texts, exps in combos:
        part["cases"] += 1
        part["evaluations"] += 1
        part["steps"] += 3
        streams = [[] for _ in texts]
        probes = []
        try:
            for i, t in enumerate(texts):
                p = probing(t, env=env)
                p.subscribe(streams[i].append)
                p.__enter__()
                probes.append(p)
            a.meth(1)
            ns["meth"](5)
            b.meth(2)
        except BaseException as e:
            part["violations"].append(violation(PROP, "simultaneous-error", {"simultaneous": texts}, f"{texts}: {type(e).__name__}: {e}", tags=["simultaneous"]))
            world.reset_context()
            continue
        finally:
            for p in reversed(probes):
                try:
                    p.__exit__(None, None, None)
                except BaseException:
                    pass
        ok = all(len(g) == len(e) and all(set(x) == set(y) and all((x[k] is y[k]) if k == "self" else x[k] == y[k] for k in y) for x, y in zip(g, e))
                 for g, e in zip(streams, exps))
        part["outcomes"]["simultaneous:" + ("ok" if ok else "bad")] += 1
        if ok:
            part["nontrivial"] += 1
        else:
            part["violations"].append(violation(
                PROP, "wrong-simultaneous-events", {"simultaneous": texts},
                f"probes {texts} active together, calls a.meth(1), meth(5), b.meth(2): expected {exps!r}, delivered {streams!r}", tags=["simultaneous"]))
    # one probe with two selectors
    part["cases"] += 1
    got = []
    try:
        with probing("Plain.meth > v", "meth > v", env=env) as p:
            p.subscribe(got.append)
            a.meth(1)
            ns["meth"](5)
    except BaseException as e:
        part["violations"].append(violation(PROP, "simultaneous-error", {"simultaneous": ["two selectors"]}, f"{type(e).__name__}: {e}", tags=["simultaneous"]))
        world.reset_context()
        return
    if got != [{"v": 2}, {"v": 500}]:
        part["violations"].append(violation(PROP, "wrong-simultaneous-events", {"simultaneous": ["two selectors"]},
                                            f"probing('Plain.meth > v', 'meth > v'): expected [{{'v': 2}}, {{'v': 500}}], delivered {got!r}", tags=["simultaneous"]))


def check_paths(ns, part):
    """Decorated method, property and dotted paths, on two instances (one probed, one not)."""
    from ptera import probing

    a, b = ns["Plain"](), ns["Plain"]()
    holder = ns["Holder"]()
    holder.inner = ns["Holder"]()
    holder.inner.obj = a
    fz, fz2 = ns["Falsy"](), ns["Falsy"]()
    env = dict(ns, a=a, b=b, holder=holder, fz=fz, fz2=fz2)
    cases = [
        ("Plain.wrapped > v", lambda: (a.wrapped(1), b.wrapped(2)), [{"v": 3}, {"v": 4}]),
        ("a.wrapped > v", lambda: (a.wrapped(1), b.wrapped(2)), [{"v": 3, "self": a}]),
        ("Plain.prop > v", lambda: (a.prop, b.prop), [{"v": 3}, {"v": 3}]),
        ("holder.inner.obj.meth > v", lambda: (a.meth(1), b.meth(2), ns["meth"](5)), [{"v": 2, "self": a}]),
        ("Plain.meth > v", lambda: (a.meth(1), ns["meth"](5), b.meth(2)), [{"v": 2}, {"v": 3}]),
        ("meth > v", lambda: (a.meth(1), ns["meth"](5), b.meth(2)), [{"v": 500}]),
        ("Box.area > a", lambda: (ns["Box"]().area,), [{"a": 21}]),
        ("Box.area() as r", lambda: (ns["Box"]().area,), [{"r": 21}]),
        ("Plain.wrapped() as r", lambda: (a.wrapped(1),), [{"r": 3}]),
        ("a.wrapped() as r", lambda: (b.wrapped(1), a.wrapped(1)), [{"r": 3, "self": a}]),
        # the decorator wraps a method that is permanently tooled (functools.wraps copies its attributes)
        ("Plain.wrapped_tooled > v", lambda: (a.wrapped_tooled(1), b.wrapped_tooled(2)), [{"v": 8}, {"v": 9}]),
        ("a.wrapped_tooled > v", lambda: (a.wrapped_tooled(1), b.wrapped_tooled(2)), [{"v": 8, "self": a}]),
        ("Plain.wrapped_twice > v", lambda: (a.wrapped_twice(1), b.wrapped_twice(2)), [{"v": 5}, {"v": 6}]),
        ("a.wrapped_twice > v", lambda: (a.wrapped_twice(1), b.wrapped_twice(2)), [{"v": 5, "self": a}]),
        ("fz.wrapped > v", lambda: (fz.wrapped(1), fz2.wrapped(2)), [{"v": 3, "self": fz}]),
        ("fz.meth > v", lambda: (fz2.meth(1), fz.meth(2)), [{"v": 3, "self": fz}]),
    ]
    for text, action, exp in cases:
        part["cases"] += 1
        part["evaluations"] += 1
        part["steps"] += 1
        got = []
        try:
            with probing(text, env=env) as p:
                p.subscribe(got.append)
                action()
        except BaseException as e:
            world.reset_context()
            part["violations"].append(violation(PROP, "path-error", {"path": text}, f"{text}: {type(e).__name__}: {e}", tags=["path"]))
            continue
        ok = len(got) == len(exp) and all(set(g) == set(e) and all((g[k] is e[k]) if k == "self" else g[k] == e[k] for k in e) for g, e in zip(got, exp))
        part["outcomes"]["path:" + ("ok" if ok else "bad")] += 1
        if ok:
            part["nontrivial"] += 1
        else:
            part["violations"].append(violation(PROP, "wrong-path-events", {"path": text}, f"{text}: expected {exp!r}, delivered {got!r}", tags=["path"]))
    part["samples"].append({"paths": [c[0] for c in cases]})


def attribute_known(part):
    from pv.core.runner import open_findings

    listed = open_findings(PROP)
    keep = []
    for v in part["violations"]:
        fid = None
        for e in listed.values():
            if all(t in v["tags"] for t in e["match"]["tags"]) and v["kind"] == e["match"].get("kind", v["kind"]):
                fid = e["id"]
                break
        if fid:
            part["known"][fid] += 1
            part["known_examples"].setdefault(fid, v["case"])
        else:
            keep.append(v)
    part["violations"] = keep


def replay(case):
    part = new_partial()
    ns = world.make_module(SRC, pin=True)
    if "simultaneous" in case:
        check_simultaneous(ns, part)
        bad = [v for v in part["violations"] if v["case"]["simultaneous"] == case["simultaneous"]]
        return (True, bad[0]["detail"]) if bad else (False, "each probe receives its own calls")
    if "variant" in case:
        check_focus_variants(ns, part)
        bad = [v for v in part["violations"] if v["case"]["variant"] == case["variant"]]
        return (True, bad[0]["detail"]) if bad else (False, "only calls on the probed receiver are delivered")
    if "path" in case:
        check_paths(ns, part)
        bad = [v for v in part["violations"] if v["case"]["path"] == case["path"]]
        return (True, bad[0]["detail"]) if bad else (False, "path resolves and filters as expected")
    kinds = tuple(case["population"])
    objs = [make_instance(ns, k) for k in kinds]
    seq = tuple(s if s == "decoy" else int(s) for s in case["seq"])
    r = run_case(ns, objs, kinds, tuple(case["target"]), seq, part, nested=case.get("nested", False))
    bad = r[0] if not isinstance(r[0], str) else r
    if bad:
        return True, bad[1]
    return False, "events are exactly the calls on the probed receiver"

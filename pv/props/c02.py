"""C02 - a probe's stream is exactly the binding history of its focus variable (E1 + twin)."""
import itertools

from pv.core.runner import new_partial, violation, HarnessError
from pv.explore import progspace as P
from pv.gen import minipy as M
from pv.props import e1common as C

PROP = "C02"
ENGINE = "E1 program-space explorer + reference twin"
RULE = (
    "every MiniPy program up to the size bound x inputs {0,1,2} x generator drivers x every focus "
    "variable among the function's parameters and own-scope bound names x context sets (none, each "
    "single other name, all others; thorough: every pair); the probe stream from probing('f(ctx) > v') "
    "must equal, event for event, the bindings of v in the trace of the generated twin (which logs "
    "every binding site explicitly), each with the latest value of every context name bound so far. "
    "non-trivial = distinct (program, input, focus, context) cases with at least one expected event"
)
ASSUMPTIONS = [
    "the twin (pv/gen/twin.py) is the reference for what a binding is: parameter, plain/tuple/chained/"
    "augmented/annotated assignment, loop target, with target, exception name, import, assignment "
    "expression; names bound by nested def/class statements and comprehension variables are not asserted",
    "the twin is checked to be observationally equal to the plain program on every case (else exit 2)",
]
BOUNDS = {
    "quick": {"program_size": 2, "inputs": [0, 1, 2], "contexts": "none, singles, all"},
    "thorough": {"program_size": "2 over the full menu, 3 over the core and binding menus", "inputs": [0, 1, 2], "contexts": "none, singles, pairs, all"},
}
CHUNK = 10


BIND_CTL = frozenset({
    "assign", "aug", "walrus", "unpack-tuple", "import-as", "del", "return", "raise", "yield-recv", "break", "continue",
    "if-else", "for", "for-else", "for-tuple", "while-walrus", "try-except", "try-finally", "with", "with-tuple", "with-two", "while-else", "if-walrus",
})


def program_sets(tier):
    """The general menu at the common size bound, and a binding/control menu one size larger
    (else-suites, handlers and finally blocks only exist from three nodes on)."""
    return [("gen", dict()), ("ctl", dict(size=C.SIZE[tier] + 1, only=BIND_CTL, key=("c02ctl", tier))),
            # rich signatures (positional-only, defaults, *rest, keyword-only, **kw, docstring) on one-node programs
            ("sig", dict(size=1 if tier == "quick" else 2, sigs=("rich", "kwonly", "doc", "closure-default", "closure-annot"), key=("c02sig", tier))),
            C.odd_set(tier)] + C.core3_sets(tier)


def units(tier):
    out = []
    for name, kw in program_sets(tier):
        n = C.count_programs(tier, **kw)
        out += [(name, lo, min(n, lo + CHUNK)) for lo in range(0, n, CHUNK)]
    return out


def focus_configs(info, tier, setname="gen"):
    # names declared global/nonlocal are not f's own variables (ptera reports their value at entry)
    names = [n for n in info["params"] + info["locals"] if n not in info["declared"]]
    out = []
    for v in names:
        others = [n for n in names if n != v]
        ctxs = [()]
        if setname == "gen" or (tier == "thorough" and setname != "core3"):
            ctxs += [(o,) for o in others]
        if len(others) > 1 or (others and setname != "gen"):
            ctxs.append(tuple(others))
        if tier == "thorough" and setname == "gen":
            ctxs += list(itertools.combinations(others, 2))
        seen = set()
        for c in ctxs:
            if c not in seen:
                seen.add(c)
                out.append((v, c))
    if info.get("attr_stores"):
        # the attribute o.at of the argument o, stored by plain / augmented / tuple assignment
        out.append(("o.at", ()))
        out.append(("o.at", ("x",)))
    return out


def expected_stream(trace, v, ctx):
    out = []
    for kind, name, value, form, sid, snap in trace:
        if kind == "bind" and name == v:
            ev = {v: value}
            for w in ctx:
                if w in snap:
                    ev[w] = snap[w]
            out.append((ev, form, sid))
    return out


def selector(v, ctx):
    if ctx:
        return f"f({', '.join(ctx)}) > {v}"
    return f"f > {v}"


def compare(exp, got):
    """First mismatch between expected [(event, form, sid)] and delivered [event]; None if equal."""
    for i, (e, form, sid) in enumerate(exp):
        if i >= len(got):
            return "missing-event", form, f"event #{i} {e!r} (binding form '{form}') was not delivered; stream has {len(got)} events"
        if got[i] != e:
            return "wrong-event", form, f"event #{i}: expected {e!r} (form '{form}'), delivered {got[i]!r}"
    if len(got) > len(exp):
        return "extra-event", "none", f"extra event #{len(exp)}: {got[len(exp)]!r}; only {len(exp)} bindings happened"
    return None


def check_case(prog, info, v, ctx, x, driver, part, record=True):
    tobs, trace = C.twin_run(prog, info, x, driver)
    ref = C.ref_run(prog, info, x, driver)
    if tobs != ref:
        raise HarnessError(f"twin differs from plain program: {P.first_difference(ref, tobs)}\n{prog.src}")
    exp = expected_stream(trace, v, ctx)
    late = []
    obs, streams = C.probe_run(prog, info, [selector(v, ctx)], x, driver, part, late_raw=late)
    if record:
        part["cases"] += 1
        part["evaluations"] += 1
        part["steps"] += len(trace)
        if exp:
            part["nontrivial"] += 1
        part["outcomes"][f"events={min(len(exp), 4)}"] += 1
    if streams is None:
        return ("activation", "none", f"activation failed: {obs[1]}: {obs[2]}")
    bad = compare(exp, streams[0])
    if bad is None:
        # an event is a record of the moment it was delivered: a raw event read after the call still
        # shows the values of that moment (compared for immutable values only - events carry live objects)
        got = streams[0]
        if len(late) != len(got):
            return "raw-stream-differs", "none", f"the raw probe on the same selector received {len(late)} events, the plain one {len(got)}"
        for i, (now, after) in enumerate(zip(got, late)):
            for k, val in now.items():
                if (val is None or isinstance(val, (bool, int, float, str))) and after.get(k) != val:
                    return "event-changed-after-delivery", "none", (
                        f"raw event #{i} read after the call shows {k}={after.get(k)!r}; when it was delivered {k} was {val!r}")
    return bad


def check_program(prog, tier, part, setname="gen"):
    info = C.analyse(prog)
    if info is None:
        return
    part["counters"]["programs"] += 1
    drivers = (P.DRIVERS_THOROUGH if tier == "thorough" else P.DRIVERS_QUICK) if info["is_gen"] else [None]
    for x in (0, 1, 2):
        for driver in drivers:
            for v, ctx in focus_configs(info, tier, setname):
                bad = check_case(prog, info, v, ctx, x, driver, part)
                if bad:
                    kind, form, detail = bad
                    case = {"src": prog.src, "forms": list(prog.forms), "x": x, "driver": driver, "focus": v, "ctx": list(ctx)}
                    vio = violation(PROP, kind + ":" + form, case, detail, tags=["symptom:" + kind, "site-form:" + form])
                    C.attribute(PROP, vio, prog, part,
                                lambda p2: _still(p2, v, ctx, x, driver))
    if len(part["samples"]) < 2:
        part["samples"].append({"program": prog.src, "focus_configs": [selector(v, c) for v, c in focus_configs(info, tier)][:8]})
    C.drop_worlds(prog)


def _still(prog, v, ctx, x, driver):
    info = C.analyse(prog)
    names = set(info["params"] + info["locals"])
    if v not in names:
        return False
    ctx = tuple(c for c in ctx if c in names)
    part = new_partial()
    r = check_case(prog, info, v, ctx, x, driver, part, record=False) is not None
    C.drop_worlds(prog)
    return r


def work(unit, tier):
    part = new_partial()
    name, lo, hi = unit
    kw = dict(program_sets(tier))[name]
    for prog in C.programs_slice(tier, lo, hi, **kw):
        check_program(prog, tier, part, name)
    return part


def replay(case):
    prog = M.Prog(case["src"], tuple(case["forms"]), C.flags_of(case["src"]), 0)
    info = C.analyse(prog)
    part = new_partial()
    drv = tuple(case["driver"]) if case["driver"] else None
    bad = check_case(prog, info, case["focus"], tuple(case["ctx"]), case["x"], drv, part)
    C.drop_worlds(prog)
    if bad:
        return True, bad[2]
    return False, "stream equals the binding history"

"""C14 - absolute references keep resolving to the same function across probing (E3)."""
import importlib
import os
import shutil
import sys
import tempfile

from pv.core import world
from pv.core.runner import new_partial, violation
from pv.explore import history as H

PROP = "C14"
ENGINE = "E3 history explorer (explicit-state BFS over replayed histories)"
RULE = (
    "for every placement of a function in a generated module file (module level, method, method of a "
    "nested class, function defined inside a function, functools.wraps-decorated function) and both "
    "codefind cache modes: breadth-first search over all operation sequences up to the depth bound over "
    "{activate a probe by name, activate a probe by reference string, deactivate (any order), call, "
    "resolve the reference}; the module is re-imported for every replay. At every resolve: no exception "
    "and select(ref + ' > v').element.name is the function; activation by reference must succeed in every "
    "state; at every call each active probe, by name or by reference, receives the same events"
)
ASSUMPTIONS = [
    "two closures over one code object cannot be told apart by a reference string: one live instance only",
    "hot reloading (codefind.conform) is not part of the alphabet",
    "codefind's timing switch is replaced by the explicit always_use_cache flag with last_cost forced to 0",
]
BOUNDS = {"quick": {"depth": 4, "slots": "2 by name + 2 by reference"}, "thorough": {"depth": 6, "slots": "2 by name + 2 by reference", "merge_audit_depth": 3}}

MODULE_SRC = '''
import functools

def deco(fn):
    @functools.wraps(fn)
    def wrapper(*args, **kwargs):
        return fn(*args, **kwargs)
    return wrapper

def top(x):
    v = x + 1
    return v

class K:
    def meth(self, x):
        v = x + 2
        return v

    class Inner:
        def im(self, x):
            v = x + 3
            return v

def outer():
    def inner(x):
        v = x + 4
        return v
    return inner

inner_fn = outer()

@deco
def decorated(x):
    v = x + 5
    return v
'''

# placement -> (how to get the object to pass to refstring, name selector, how to call, offset)
PLACEMENTS = {
    "top": ("top", "top", lambda m, x: m.top(x), 1),
    "method": ("K.meth", "K.meth", lambda m, x: m.K().meth(x), 2),
    "nested-class-method": ("K.Inner.im", "K.Inner.im", lambda m, x: m.K.Inner().im(x), 3),
    "inner-function": ("inner_fn", "inner_fn", lambda m, x: m.inner_fn(x), 4),
    "decorated": ("decorated", "decorated", lambda m, x: m.decorated(x), 5),
}
SLOTS = ["N1", "N2", "R1", "R2"]
_COUNTER = [0]
_DIRS = []


def scratch_dir():
    if not _DIRS:
        d = tempfile.mkdtemp(prefix="pv_c14_")
        _DIRS.append(d)
        sys.path.insert(0, d)
    return _DIRS[0]


def cleanup():
    for d in _DIRS:
        if d in sys.path:
            sys.path.remove(d)
        shutil.rmtree(d, ignore_errors=True)
    del _DIRS[:]


def _get(mod, dotted):
    obj = mod
    for part in dotted.split("."):
        obj = getattr(obj, part)
    return obj


class World:
    def __init__(self, placement, cache_mode):
        from codefind import code_registry

        _COUNTER[0] += 1
        self.modname = f"pv_c14_mod_{os.getpid()}_{_COUNTER[0]}"
        path = os.path.join(scratch_dir(), self.modname + ".py")
        with open(path, "w") as f:
            # code objects compare by value (name, first line, bytecode, ...) but not by file name, and
            # codefind keys its caches on them: give every generated module its own line numbers
            f.write(f"# world {_COUNTER[0]}\n" + "\n" * (_COUNTER[0] % 5000) + MODULE_SRC)
        importlib.invalidate_caches()
        self.mod = importlib.import_module(self.modname)
        self.path = path
        objname, self.namesel, self.caller, self.offset = PLACEMENTS[placement]
        obj = _get(self.mod, objname)
        self.fn = getattr(obj, "__wrapped__", obj)
        self.obj = obj
        self.orig_code = self.fn.__code__
        self.probes = {}
        self.streams = {s: [] for s in SLOTS}
        self.calls = 0
        self.ref = None
        code_registry.always_use_cache = cache_mode
        code_registry.last_cost = 0

    def dispose(self):
        sys.modules.pop(self.modname, None)
        try:
            os.unlink(self.path)
        except OSError:
            pass


class System:
    def __init__(self, placement, cache_mode):
        self.placement = placement
        self.cache_mode = cache_mode

    def initial_model(self):
        return ((), 0)  # active slots (in activation order), calls

    def enabled(self, m):
        act, calls = m
        ops = []
        for s in SLOTS:
            ops.append(("act", s) if s not in act else ("deact", s))
        ops += [("call",), ("resolve",)]
        return ops

    def step_model(self, m, op):
        act, calls = m
        if op[0] == "act":
            return (act + (op[1],), calls), "ok"
        if op[0] == "deact":
            return (tuple(s for s in act if s != op[1]), calls), "ok"
        if op[0] == "call":
            x = calls + 1
            val = x + PLACEMENTS[self.placement][3]
            return (act, x), ("result", val, tuple(sorted((s, (val,)) for s in act)))
        if op[0] == "resolve":
            return m, "resolved-to-the-function"
        raise KeyError(op)

    def model_key(self, m):
        return m[0]

    def outcome_class(self, m):
        return (len([s for s in m[0] if s[0] == "N"]), len([s for s in m[0] if s[0] == "R"]))

    def fresh(self):
        world.reset_context()
        return World(self.placement, self.cache_mode)

    def _ref(self, w):
        from ptera import refstring
        from codefind import code_registry

        code_registry.last_cost = 0
        if w.ref is None:
            w.ref = refstring(w.obj)
        return w.ref

    def apply(self, w, op):
        from ptera import probing
        from ptera.selector import select
        from codefind import code_registry

        code_registry.last_cost = 0
        try:
            if op[0] == "act":
                slot = op[1]
                if slot[0] == "N":
                    p = probing(f"{w.namesel} > v", env=vars(w.mod))
                else:
                    p = probing(f"{self._ref(w)} > v", env={})
                p.subscribe(lambda ev, s=slot: w.streams[s].append(ev["v"]))
                p.__enter__()
                w.probes[slot] = p
                return "ok"
            if op[0] == "deact":
                w.probes.pop(op[1]).__exit__(None, None, None)
                return "ok"
            if op[0] == "call":
                for s in w.streams.values():
                    del s[:]
                w.calls += 1
                r = w.caller(w.mod, w.calls)
                return ("result", r, tuple(sorted((s, tuple(e)) for s, e in w.streams.items() if e or s in w.probes)))
            if op[0] == "resolve":
                sel = select(f"{self._ref(w)} > v", env={})
                target = sel.element.name
                if target is w.fn:
                    return "resolved-to-the-function"
                return ("resolved-to-another-object", repr(target))
        except BaseException as e:
            return ("raised", type(e).__name__, str(e)[:200])
        raise KeyError(op)

    def impl_key(self, w):
        from codefind import code_registry as cr

        st = getattr(w.fn, "__ptera_stack__", None)
        stack = None if st is None else (st.instrument_count, tuple(sorted((str(c), n) for c, n in st.captures.items() if n)))
        cur = w.fn.__code__
        # registry view: which objects the registry lists for the original and the current code
        def listed(code):
            return tuple(sorted(type(o).__name__ + (":discard" if getattr(o, "__ptera_discard__", False) else "") for o in cr.functions.get(code, ())))
        return (stack, cur is w.orig_code, listed(w.orig_code), listed(cur), tuple(sorted(w.probes)))

    def invariant(self, w, m):
        act, calls = m
        probs = []
        if not act:
            probs += world.clean_state_problems(w.fn, w.orig_code)
        return probs

    def close(self, w):
        for s in list(w.probes):
            try:
                w.probes.pop(s).__exit__(None, None, None)
            except BaseException:
                pass
        world.reset_context()
        w.dispose()


def units(tier):
    out = []
    for placement in PLACEMENTS:
        for cache_mode in (False, True):
            out.append(("bfs", placement, cache_mode))
    return out


def work(unit, tier):
    part = new_partial()
    _, placement, cache_mode = unit
    system = System(placement, cache_mode)
    try:
        res = H.explore(system, BOUNDS[tier]["depth"], audit_depth=BOUNDS[tier].get("merge_audit_depth", 0))
    finally:
        cleanup()
        from codefind import code_registry

        code_registry.always_use_cache = False
    part["cases"] = res.states
    part["steps"] = res.transitions
    part["evaluations"] = res.transitions
    part["nontrivial"] = res.states
    part["counters"]["replayed-steps"] = res.replayed_steps
    part["counters"]["merged-into-seen-state"] = res.merged
    part["counters"]["max-depth"] = res.max_depth
    part["counters"]["unexpanded-error-states"] = res.unexpanded_error_states
    for k, v in res.outcomes.items():
        part["outcomes"][f"{placement}:{k}"] += v
    part["samples"] = [{"placement": placement, "cache_mode": cache_mode, "history": h} for h in res.samples[:2]]
    for rep, other, op in res.audit_failures:
        part["harness_errors"].append(f"merge audit: {rep!r} and {other!r} were merged but differ after {op!r}")
    for kind, hist, detail in res.violations:
        part["violations"].append(violation(
            PROP, kind, {"history": [list(o) for o in hist], "placement": placement, "cache_mode": cache_mode},
            f"[{placement}, always_use_cache={cache_mode}] {detail}", tags=["placement:" + placement]))
    return part


def replay(case):
    system = System(case["placement"], case["cache_mode"])
    hist = tuple(tuple(o) for o in case["history"])
    try:
        w, m, problem, at = H.run_history(system, hist)
        system.close(w)
    finally:
        cleanup()
    if problem:
        return True, problem[1]
    return False, "history replays without a problem"

"""C14 - absolute references keep resolving to the same function across probing (E3)."""
import importlib
import os
import shutil
import sys
import tempfile

from pv.core import world
from pv.core.runner import new_partial, violation
from pv.explore import history as H

PROP = "C14"
ENGINE = "E3 history explorer (explicit-state BFS over replayed histories)"
RULE = (
    "for six pairs of placements in a generated module file (module-level function + its caller through a "
    "call-path selector, method + same-named module-level function and vice versa, function defined inside "
    "a function + its enclosing function, method of a nested class + method, functools.wraps-decorated "
    "function + plain function, module-level function + same-named method that is permanently @tooled) and both codefind cache modes, and with the generated file run as the main "
    "module (references with an empty module part): breadth-first search over all operation "
    "sequences up to the depth bound over {activate / deactivate (any order) a probe on the primary function "
    "by name / by reference and on the secondary by name / by reference, call the primary, call the "
    "secondary, resolve both references}; the module is re-imported for every replay. At every resolve both "
    "references resolve, without exception, to the very functions; activation by reference succeeds in every "
    "state; at every call each active probe, by name or by reference, receives exactly its events"
)
ASSUMPTIONS = [
    "two closures over one code object cannot be told apart by a reference string: one live instance only",
    "hot reloading (codefind.conform) is not part of the alphabet",
    "codefind's timing switch is replaced by the explicit always_use_cache flag with last_cost forced to 0",
]
BOUNDS = {"quick": {"depth": 4, "slots": "2 by name + 2 by reference"}, "thorough": {"depth": 5, "slots": "2 by name + 2 by reference", "merge_audit_depth": 3}}

MODULE_SRC = '''
import functools
from ptera import tooled

def deco(fn):
    @functools.wraps(fn)
    def wrapper(*args, **kwargs):
        return fn(*args, **kwargs)
    return wrapper

def top(x):
    v = x + 1
    return v

def meth(x):
    # module-level function with the same name as the method K.meth
    v = x + 6
    return v

def caller(x):
    r = top(x)
    return r

class K:
    def meth(self, x):
        v = x + 2
        return v

    class Inner:
        def im(self, x):
            v = x + 3
            return v

def outer():
    k = 7
    def inner(x):
        v = x + 4
        return v
    return inner

inner_fn = outer()

@deco
def decorated(x):
    v = x + 5
    return v

@deco
@deco
def decorated2(x):
    v = x + 10
    return v

def scale(x):
    # module-level function with the same name as the permanently tooled method Box.scale
    v = x + 8
    return v

class Box:
    @tooled
    def scale(self, x):
        v = x + 9
        return v
'''

# placement -> (object to pass to refstring, name selector, how to call, what the probed variable is, its value for x)
PLACEMENTS = {
    "top": ("top", "top", lambda m, x: m.top(x), "v", lambda x: x + 1),
    "method": ("K.meth", "K.meth", lambda m, x: m.K().meth(x), "v", lambda x: x + 2),
    "nested-class-method": ("K.Inner.im", "K.Inner.im", lambda m, x: m.K.Inner().im(x), "v", lambda x: x + 3),
    "inner-function": ("inner_fn", "inner_fn", lambda m, x: m.inner_fn(x), "v", lambda x: x + 4),
    "decorated": ("decorated", "decorated", lambda m, x: m.decorated(x), "v", lambda x: x + 5),
    "module-meth": ("meth", "meth", lambda m, x: m.meth(x), "v", lambda x: x + 6),
    "decorated-twice": ("decorated2", "decorated2", lambda m, x: m.decorated2(x), "v", lambda x: x + 10),
    "module-scale": ("scale", "scale", lambda m, x: m.scale(x), "v", lambda x: x + 8),
    "tooled-method": ("Box.scale", "Box.scale", lambda m, x: m.Box().scale(x), "v", lambda x: x + 9),
    "outer-function": ("outer", "outer", lambda m, x: m.outer() and None, "k", lambda x: 7),
    # a call path: the secondary probe is `caller > top > v`; calling it runs the primary function top
    "caller-path": ("caller", "caller", lambda m, x: m.caller(x), "v", lambda x: x + 1),
}
# (primary, secondary): probes on both, references of both resolved at every `resolve`
PAIRS = [
    ("top", "caller-path"),
    ("method", "module-meth"),
    ("module-meth", "method"),
    ("inner-function", "outer-function"),
    ("nested-class-method", "method"),
    ("decorated", "top"),
    ("module-scale", "tooled-method"),
    ("decorated-twice", "decorated"),
]
MAIN_PAIRS = {"quick": [("top", "caller-path"), ("nested-class-method", "method")], "thorough": PAIRS}
SLOTS = ["N1", "R1", "Q1", "Q2"]  # primary by name / by reference, secondary by name / by reference
_COUNTER = [0]
_DIRS = []


def scratch_dir():
    if not _DIRS:
        d = tempfile.mkdtemp(prefix="pv_c14_")
        _DIRS.append(d)
        sys.path.insert(0, d)
    return _DIRS[0]


def cleanup():
    for d in _DIRS:
        if d in sys.path:
            sys.path.remove(d)
        shutil.rmtree(d, ignore_errors=True)
    del _DIRS[:]


def _get(mod, dotted):
    obj = mod
    for part in dotted.split("."):
        obj = getattr(obj, part)
    return obj


class Target:
    def __init__(self, mod, placement):
        objname, self.namesel, self.caller, self.var, self.value = PLACEMENTS[placement]
        self.placement = placement
        self.obj = _get(mod, objname)
        self.fn = self.obj
        while hasattr(self.fn, "__wrapped__") and not hasattr(self.fn, "__ptera_info__"):
            self.fn = self.fn.__wrapped__  # the function under any number of functools.wraps decorators
        self.orig_code = self.fn.__code__
        self.ref = None


class World:
    def __init__(self, pair, cache_mode, as_main=False):
        from codefind import code_registry

        _COUNTER[0] += 1
        self.modname = f"pv_c14_mod_{os.getpid()}_{_COUNTER[0]}"
        path = os.path.join(scratch_dir(), self.modname + ".py")
        with open(path, "w") as f:
            # code objects compare by value (name, first line, bytecode, ...) but not by file name, and
            # codefind keys its caches on them: give every generated module its own line numbers
            f.write(f"# world {_COUNTER[0]}\n" + "\n" * _COUNTER[0] + MODULE_SRC)
        importlib.invalidate_caches()
        self.as_main = as_main
        self.real_main = sys.modules.get("__main__")
        if as_main:
            # the generated file is run as the script: its functions live in `__main__` and their
            # references have an empty module part ('//top'); it stays sys.modules['__main__'] for
            # the life of this world
            import importlib.util as _ilu

            spec = _ilu.spec_from_file_location("__main__", path)
            self.mod = _ilu.module_from_spec(spec)
            sys.modules["__main__"] = self.mod
            try:
                spec.loader.exec_module(self.mod)
            except BaseException:
                sys.modules["__main__"] = self.real_main
                raise
        else:
            self.mod = importlib.import_module(self.modname)
        self.path = path
        self.p = Target(self.mod, pair[0])
        self.q = Target(self.mod, pair[1])
        self.probes = {}
        self.streams = {s: [] for s in SLOTS}
        self.calls = 0
        code_registry.always_use_cache = cache_mode
        code_registry.last_cost = 0
        if cache_mode:
            # codefind fills its cache of "functions that run this code" lazily, by whichever operation asks
            # first; asking once at the start makes the cache a function of the operations alone
            for t in (self.p, self.q):
                code_registry.get_functions(t.orig_code)

    def dispose(self):
        if self.as_main and sys.modules.get("__main__") is self.mod:
            sys.modules["__main__"] = self.real_main
        sys.modules.pop(self.modname, None)
        try:
            os.unlink(self.path)
        except OSError:
            pass


class System:
    def __init__(self, pair, cache_mode, as_main=False):
        self.pair = pair
        self.cache_mode = cache_mode
        self.as_main = as_main
        self.path_pair = pair[1] == "caller-path"

    def initial_model(self):
        return ((), 0)  # active slots (in activation order), calls

    def enabled(self, m):
        act, calls = m
        ops = []
        for s in SLOTS:
            ops.append(("act", s) if s not in act else ("deact", s))
        ops += [("call",), ("callq",), ("resolve",)]
        return ops

    def step_model(self, m, op):
        act, calls = m
        if op[0] == "act":
            return (act + (op[1],), calls), "ok"
        if op[0] == "deact":
            return (tuple(s for s in act if s != op[1]), calls), "ok"
        if op[0] in ("call", "callq"):
            x = calls + 1
            pv = PLACEMENTS[self.pair[0]][4](x)
            qv = PLACEMENTS[self.pair[1]][4](x)
            exp = {}
            for s in act:
                if s in ("N1", "R1"):
                    # the primary function runs on `call`, and on `callq` when the secondary is its caller
                    if op[0] == "call" or self.path_pair:
                        exp[s] = (pv,)
                else:
                    if op[0] == "callq":
                        exp[s] = (qv,)
            return (act, x), ("events", tuple(sorted(exp.items())))
        if op[0] == "resolve":
            return m, "both-references-resolve-to-their-functions"
        raise KeyError(op)

    def model_key(self, m):
        return m[0]

    def outcome_class(self, m):
        return tuple(sorted(m[0]))

    def fresh(self):
        world.reset_context()
        return World(self.pair, self.cache_mode, self.as_main)

    def _ref(self, t):
        from ptera import refstring
        from codefind import code_registry

        code_registry.last_cost = 0
        if t.ref is None:
            t.ref = refstring(t.obj)
            if self.as_main and not t.ref.startswith("//"):
                raise AssertionError(f"harness: reference of a function of the main module is {t.ref!r}")
        return t.ref

    def _selector(self, w, slot):
        """(selector text, env, captured variable name)"""
        if slot == "N1":
            return f"{w.p.namesel} > {w.p.var}", vars(w.mod), w.p.var
        if slot == "R1":
            return f"{self._ref(w.p)} > {w.p.var}", {}, w.p.var
        if self.path_pair:
            if slot == "Q1":
                return f"caller > top > v", vars(w.mod), "v"
            return f"{self._ref(w.q)} > {self._ref(w.p)} > v", {}, "v"
        if slot == "Q1":
            return f"{w.q.namesel} > {w.q.var}", vars(w.mod), w.q.var
        return f"{self._ref(w.q)} > {w.q.var}", {}, w.q.var

    def apply(self, w, op):
        from ptera import probing
        from ptera.selector import select
        from codefind import code_registry

        code_registry.last_cost = 0
        try:
            if op[0] == "act":
                slot = op[1]
                text, env, var = self._selector(w, slot)
                p = probing(text, env=env)
                p.subscribe(lambda ev, s=slot, var=var: w.streams[s].append(ev[var]))
                p.__enter__()
                w.probes[slot] = p
                return "ok"
            if op[0] == "deact":
                w.probes.pop(op[1]).__exit__(None, None, None)
                return "ok"
            if op[0] in ("call", "callq"):
                for s in w.streams.values():
                    del s[:]
                w.calls += 1
                t = w.p if op[0] == "call" else w.q
                t.caller(w.mod, w.calls)
                return ("events", tuple(sorted((s, tuple(e)) for s, e in w.streams.items() if e)))
            if op[0] == "resolve":
                for t in (w.p, w.q):
                    sel = select(f"{self._ref(t)} > {t.var}", env={})
                    target = sel.element.name
                    if target is not t.fn:
                        return ("reference-resolves-to-another-object", t.placement, repr(target))
                return "both-references-resolve-to-their-functions"
        except BaseException as e:
            return ("raised", type(e).__name__, str(e)[:200])
        raise KeyError(op)

    def impl_key(self, w):
        from codefind import code_registry as cr

        def listed(code):
            return tuple(sorted(type(o).__name__ + (":discard" if getattr(o, "__ptera_discard__", False) else "") for o in cr.functions.get(code, ())))

        out = []
        for t in (w.p, w.q):
            from pv.core import introspect as I

            stack = I.stack_state(t.fn)
            cur = t.fn.__code__
            if self.cache_mode:
                out.append((stack, cur is t.orig_code, listed(t.orig_code), listed(cur)))
            else:
                # without always_use_cache codefind scans for the functions at every request: what its
                # cache holds is not read by anything
                out.append((stack, cur is t.orig_code))
        return (tuple(out), tuple(sorted(w.probes)))

    def invariant(self, w, m):
        act, calls = m
        probs = []
        if not act:
            for t in (w.p, w.q):
                probs += [f"{t.placement}: {p}" for p in world.clean_state_problems(t.fn, t.orig_code)]
        return probs

    def close(self, w):
        for s in list(w.probes):
            try:
                w.probes.pop(s).__exit__(None, None, None)
            except BaseException:
                pass
        world.reset_context()
        w.dispose()


def units(tier):
    out = []
    for pair in PAIRS:
        for cache_mode in (False, True):
            out.append(("bfs", pair, cache_mode, False))
    # the generated module run as the main script: references of the form '//name'
    for pair in MAIN_PAIRS[tier]:
        out.append(("bfs", pair, False, True))
    if tier == "thorough":
        # shard every search by its first operation
        sharded = []
        for u in out:
            for h in H.first_ops(System(tuple(u[1]), u[2], u[3]), 1):
                sharded.append(u + (h,))
        return sharded
    return out


def work(unit, tier):
    part = new_partial()
    _, pair, cache_mode, as_main = unit[:4]
    prefix = unit[4] if len(unit) > 4 else ()
    placement = "+".join(pair) + ("@main" if as_main else "")
    system = System(tuple(pair), cache_mode, as_main)
    try:
        res = H.explore(system, BOUNDS[tier]["depth"], audit_depth=BOUNDS[tier].get("merge_audit_depth", 0), prefix=prefix)
    finally:
        cleanup()
        from codefind import code_registry

        code_registry.always_use_cache = False
    part["cases"] = res.states
    part["steps"] = res.transitions
    part["evaluations"] = res.transitions
    part["nontrivial"] = res.states
    part["counters"]["replayed-steps"] = res.replayed_steps
    part["counters"]["merged-into-seen-state"] = res.merged
    part["counters"]["max-depth"] = res.max_depth
    part["counters"]["unexpanded-error-states"] = res.unexpanded_error_states
    for k, v in res.outcomes.items():
        part["outcomes"][f"{placement}:{k}"] += v
    part["samples"] = [{"placement": placement, "cache_mode": cache_mode, "history": h} for h in res.samples[:2]]
    for rep, other, op in res.audit_failures:
        part["harness_errors"].append(f"merge audit: {rep!r} and {other!r} were merged but differ after {op!r}")
    for kind, hist, detail in res.violations:
        part["violations"].append(violation(
            PROP, kind, {"history": [list(o) for o in hist], "placement": placement, "cache_mode": cache_mode},
            f"[{placement}, always_use_cache={cache_mode}] {detail}", tags=["placement:" + placement]))
    return part


def replay(case):
    system = System(tuple(case["placement"].replace("@main", "").split("+")), case["cache_mode"], case["placement"].endswith("@main"))
    hist = tuple(tuple(o) for o in case["history"])
    try:
        w, m, problem, at = H.run_history(system, hist)
        system.close(w)
    finally:
        cleanup()
    if problem:
        return True, problem[1]
    return False, "history replays without a problem"

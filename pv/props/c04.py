"""C04 - overriding a focus variable is equivalent to substituting the assigned value (E1 + substituted twin)."""
import itertools

from pv.core import world
from pv.core.runner import new_partial, violation, HarnessError
from pv.explore import progspace as P
from pv.gen import minipy as M
from pv.props import e1common as C

PROP = "C04"
ENGINE = "E1 program-space explorer + substituted twin"
RULE = (
    "every MiniPy program up to the size bound x inputs {0,1,2} x every overridable focus (parameter, "
    "every own-scope bound name whatever its binding form, attribute store o.at, return value) x a "
    "context variable x handler stacks in every listed activation order drawn from {overriding probe, "
    "plain probe, Overlay.tweaking, Overlay.rewriting, overrides derived from one reused Overlay instance "
    "after an earlier one derived from it has ended} x override function {constant, function of the "
    "tentative value, conditional (declines on even values), function of the captured context}; "
    "oracle = the substituted twin (same program, SITE returns what the most recently activated "
    "non-declining override returns): result, effect log, argument state must be equal and plain "
    "probes must see the substituted values. Closure variables: the attempt must raise "
    "OverrideException and leave the variable unchanged. non-trivial = distinct cases in which at "
    "least one binding was actually substituted"
)
ASSUMPTIONS = [
    "what an overriding probe's own pipeline sees is not asserted (documented as the pre-override value)",
    "subscript stores cannot be named by a selector and are not overridden",
    "overrides that run on a generator function are driven with the quick driver set",
]
BOUNDS = {
    "quick": {"program_size": 2, "stacks": "14 probing-route stacks (<=2 handlers) + 6 tooled-route stacks"},
    "thorough": {"program_size": "2 over the full menu, 3 over the core and control menus", "stacks": "all probing-route stacks of <=2 handlers over 8 handler kinds, curated triples, 12 tooled-route stacks"},
}
CHUNK = 6
DECLINE = object()


def ovr_const(ev, v, w):
    return 1000


def ovr_plus(ev, v, w):
    x = ev.get(v)
    return x + 100 if type(x) is int else 1001


def ovr_cond(ev, v, w):
    x = ev.get(v)
    return x + 7 if type(x) is int and x % 2 == 1 else DECLINE


def ovr_ctx(ev, v, w):
    x = ev.get(w)
    return x + 500 if type(x) is int else 1002


OVR = {"const": ovr_const, "plus": ovr_plus, "cond": ovr_cond, "ctx": ovr_ctx}

QUICK_A = [
    [("oprobe", "const")], [("oprobe", "plus")], [("oprobe", "cond")], [("oprobe", "ctx")],
    [("oprobe", "const"), ("probe", None)], [("probe", None), ("oprobe", "plus")],
    [("oprobe", "const"), ("oprobe", "plus")], [("oprobe", "plus"), ("oprobe", "cond")],
    [("probe", None), ("tweak", "const")],
    [("rewrite", "plus"), ("probe", None)], [("oprobe", "const"), ("rewrite", "ctx")],
    [("tweak", "const"), ("oprobe", "cond")],
]
QUICK_B = [
    [("tweak", "const")], [("tweak2", "const")], [("rewrite", "plus")], [("rewrite", "ctx")],
    [("tweak", "const"), ("rewrite", "plus")], [("rewrite", "plus"), ("tweak", "const")],
    [("tap", None), ("rewrite", "plus")],
    # one Overlay *instance* reused: an override derived from it (base.tweaking) has ended before the
    # run; afterwards the instance itself, or another override derived from it, is entered
    [("ghost", None), ("ibase", None), ("tap", None)],
    [("ghost", None), ("itweak", "const")],
]
KINDS_A = [("oprobe", "const"), ("oprobe", "plus"), ("oprobe", "cond"), ("oprobe", "ctx"), ("probe", None),
           ("tweak", "const"), ("rewrite", "plus"), ("rewrite", "ctx")]


def stacks(tier):
    if tier == "quick":
        return [("A", s) for s in QUICK_A] + [("B", s) for s in QUICK_B]
    out = []
    for n in (1, 2):
        for s in itertools.product(KINDS_A, repeat=n):
            if any(k in ("oprobe", "probe") for k, _ in s) and any(o for _, o in s):
                out.append(("A", list(s)))
    triples = [
        [("oprobe", "const"), ("probe", None), ("oprobe", "cond")],
        [("oprobe", "cond"), ("oprobe", "plus"), ("probe", None)],
        [("probe", None), ("oprobe", "cond"), ("oprobe", "cond")],
        [("tweak", "const"), ("oprobe", "cond"), ("rewrite", "plus")],
        [("oprobe", "plus"), ("rewrite", "ctx"), ("probe", None)],
        [("oprobe", "cond"), ("tweak", "const"), ("oprobe", "cond")],
    ]
    out += [("A", t) for t in triples]
    out += [("B", [("ghost", None), ("ibase", None), ("tap", None)]), ("B", [("ghost", None), ("itweak", "const")]),
            ("B", [("ghost", None), ("itweak", "const"), ("rewrite", "plus")]), ("B", [("ghost", None), ("rewrite", "plus"), ("ibase", None)])]
    kb = [("tweak", "const"), ("tweak2", "const"), ("rewrite", "plus"), ("rewrite", "ctx"), ("tap", None)]
    for n in (1, 2):
        for s in itertools.product(kb, repeat=n):
            if any(o for _, o in s):
                out.append(("B", list(s)))
    return out


SMALL_CTL = frozenset({"assign", "aug", "return", "if-else", "for-else", "for", "try-except", "try-finally", "with", "break", "raise"})
CTL_STACKS = [("A", [("oprobe", "const")]), ("A", [("oprobe", "cond")]), ("A", [("oprobe", "plus"), ("probe", None)]),
              ("B", [("tweak", "const")]), ("B", [("rewrite", "plus")]), ("B", [("ghost", None), ("ibase", None), ("tap", None)])]


def program_sets(tier):
    """General menu at the common size bound with the full stack list; a control-flow menu one size
    larger (else suites, handlers, finally blocks) with a short stack list."""
    return [("gen", dict()), ("ctl", dict(size=C.SIZE[tier] + 1, only=SMALL_CTL, key=("c04ctl", tier))),
            C.odd_set(tier)] + C.core3_sets(tier)


INSIDE_SRC = '''
from ptera import tooled

HOOK = [None]

def k(x):
    a = x + 1
    if HOOK[0] is not None:
        HOOK[0]()
    b = a + 1
    return b

@tooled
def f(x):
    v = x + 1
    return v
'''


def check_inside(part):
    """'The most recently activated override wins' when overrides are entered / left by code that runs
    inside an instrumented call: every combination of where the older override A (:= 200) and the newer
    one B (:= 400) are entered, where B is left, and whether the surrounding call is instrumented."""
    from ptera import Overlay, probing
    from ptera.selector import select

    for k_probed in (False, True):
        for a_in, b_in, b_out_in in itertools.product((False, True), repeat=3):
            ns = world.make_module(INSIDE_SRC)
            f, k, hook = ns["f"], ns["k"], ns["HOOK"]
            sel = select("f > v", env={"f": f})
            A = Overlay.tweaking({sel: 200})
            B = Overlay.tweaking({sel: 400})

            def at(inside, action):
                if inside:
                    hook[0] = action
                    try:
                        k(0)
                    finally:
                        hook[0] = None
                else:
                    action()

            part["cases"] += 1
            part["evaluations"] += 1
            part["steps"] += 6
            part["nontrivial"] += 1
            kp = probing("k > a", env={"k": k}) if k_probed else None
            got = []
            try:
                if kp:
                    kp.__enter__()
                at(a_in, A.__enter__)
                got.append(f(1))
                at(b_in, B.__enter__)
                got.append(f(1))
                at(b_out_in, lambda: B.__exit__(None, None, None))
                got.append(f(1))
                A.__exit__(None, None, None)
                got.append(f(1))
            except BaseException as e:
                got.append(f"{type(e).__name__}: {e}")
            finally:
                if kp:
                    try:
                        kp.__exit__(None, None, None)
                    except BaseException:
                        pass
                world.reset_context()
            part["outcomes"][f"inside:{k_probed}"] += 1
            want = [200, 400, 200, 2]
            if got != want:
                where = lambda b: "inside a call of k" if b else "at top level"
                part["violations"].append(violation(
                    PROP, "inside-activation", {"inside": [k_probed, a_in, b_in, b_out_in]},
                    f"override A (f > v := 200) entered {where(a_in)}, B (:= 400) entered {where(b_in)} and left {where(b_out_in)}, "
                    f"k {'probed' if k_probed else 'not probed'}: f(1) after each step should be {want!r}, was {got!r}", tags=["inside"]))


def units(tier):
    out = [("paths", i) for i in range(len(PATH_PAIRS))] + [("inside",)]
    for name, kw in program_sets(tier):
        n = C.count_programs(tier, **kw)
        out += [(name, lo, min(n, lo + CHUNK)) for lo in range(0, n, CHUNK)]
    return out


def focuses(prog, info):
    names = [n for n in info["params"] + info["locals"] if n not in info["declared"]]
    out = []
    for v in names:
        others = [n for n in names if n != v]
        out.append((v, others[0] if others else None))
    if "attr" in prog.forms or "attr-aug" in prog.forms or "attr-yield" in prog.forms:
        out.append(("o.at", "x"))
    out.append(("#value", "x"))
    return out


def selector_text(v, w, need_ctx):
    if need_ctx and w:
        return f"f({w}) > {v}"
    return f"f > {v}"


def reference(prog, info, v, w, stack, x, driver):
    """Run the substituted twin; returns (obs, expected plain stream, n_substituted)."""
    latest = {}
    count = [0]
    need_ctx = any(o == "ctx" for _, o in stack)

    def decide(name, value):
        ev = {v: value}
        if need_ctx and w in latest:
            ev[w] = latest[w]
        new = value
        for kind, o in stack:
            if o is None:
                continue
            r = OVR[o](ev, v, w)
            if r is not DECLINE:
                new = r
        if new is not value:
            count[0] += 1
        return new

    def site(sid, name, form, value):
        new = decide(name, value) if name == v else value
        latest[name] = new
        return new

    def meta(name, value):
        if name == "#value" and v == "#value":
            return decide(name, value)
        return value

    obs, trace = C.twin_run(prog, info, x, driver, subst={"site": site, "meta": meta})
    exp = []
    for kind, name, value, form, sid, snap in trace:
        if name == v:
            ev = {v: value}
            if need_ctx and w in snap:
                ev[w] = snap[w]
            exp.append(ev)
    return obs, exp, count[0]


def instrumented(prog, info, v, w, route, stack, x, driver, part):
    """Run the real thing.  Returns (obs, [streams of plain probes/taps]) or (('activation-failed',..), None)."""
    from ptera import probing, tooled, Overlay
    from ptera.selector import select
    from ptera.utils import ABSENT

    need_ctx = any(o == "ctx" for _, o in stack)
    text = selector_text(v, w, need_ctx)
    kind_world = "inst" if route == "A" else "tooled4"
    wd = C.get_world(prog, info, kind_world)
    C.fresh(wd, info)
    fn = wd.f
    env = {"f": wd.f}
    if route == "B":
        fn = getattr(wd, "instrumented_fn", None)
        if fn is None or wd.closure:
            try:
                fn = tooled(wd.f)
            except BaseException as e:
                C.discard_world(prog, kind_world)
                return ("activation-failed", type(e).__name__, str(e)[:200]), None
            wd.instrumented_fn = fn
        env = {"f": fn}
    plain = []
    active = []
    base = Overlay()  # the reused instance of the ghost / ibase / itweak kinds

    def wrap(o):
        def call(ev):
            ev = {k: val for k, val in ev.items()}
            r = OVR[o](ev, v, w)
            return ABSENT if r is DECLINE else r
        return call

    try:
        for kind, o in stack:
            if kind == "oprobe":
                p = probing(text, env=env, overridable=True)
                if o == "cond":
                    # a declining override: the pipeline filters the event out, nothing is set
                    p.filter(lambda ev: OVR["cond"](ev, v, w) is not DECLINE).override(lambda ev: OVR["cond"](ev, v, w))
                else:
                    p.override(lambda ev, o=o: OVR[o](ev, v, w))
                p.__enter__()
                active.append(p)
            elif kind == "probe":
                p = probing(text, env=env)
                lst = []
                plain.append(lst)
                p.subscribe(lambda ev, lst=lst: lst.append({k: P.freeze(val) for k, val in ev.items()}))
                p.__enter__()
                active.append(p)
            elif kind == "tweak":
                ol = Overlay.tweaking({select(text, env=env): OVR[o]({}, v, w)})
                ol.__enter__()
                active.append(ol)
            elif kind == "tweak2":
                # one tweaking() call with two entries: the second one carries a value condition that
                # never holds (x is never -12345), so only the first value may ever be applied
                # (tooled route only: the condition needs x to be instrumented)
                never = select(text.replace("f(", "f(x=-12345, ", 1) if "f(" in text else text.replace("f >", "f(x=-12345) >", 1), env=env)
                ol = Overlay.tweaking({select(text, env=env): OVR[o]({}, v, w), never: 555})
                ol.__enter__()
                active.append(ol)
            elif kind == "ghost":
                with base.tweaking({select(text, env=env): 31337}):
                    pass
            elif kind == "ibase":
                base.__enter__()
                active.append(base)
            elif kind == "itweak":
                ol = base.tweaking({select(text, env=env): OVR[o]({}, v, w)})
                ol.__enter__()
                active.append(ol)
            elif kind == "rewrite":
                ol = Overlay.rewriting({select(text, env=env): wrap(o)})
                ol.__enter__()
                active.append(ol)
            elif kind == "tap":
                ol = Overlay()
                lst = []
                plain.append(lst)
                ol.register(select(text, env=env), lambda ev, lst=lst: lst.append({k: P.freeze(val) for k, val in ev.items()}))
                ol.__enter__()
                active.append(ol)
    except BaseException as e:
        for a in reversed(active):
            try:
                a.__exit__(None, None, None)
            except BaseException:
                pass
        C.discard_world(prog, kind_world)
        world.reset_context()
        return ("activation-failed", type(e).__name__, str(e)[:300]), None
    try:
        obs = P.run(wd, fn, x, driver, prog.flags)
    finally:
        for a in reversed(active):
            try:
                a.__exit__(None, None, None)
            except BaseException:
                pass
    if route == "A" and world.clean_state_problems(wd.f, wd.orig_code):
        part["counters"]["world-rebuilt-unclean"] += 1
        C.discard_world(prog, kind_world)
        world.reset_context()
    elif world.clean_state_problems(wd.f, wd.f.__code__):
        world.reset_context()
    return obs, plain


def check_case(prog, info, v, w, route, stack, x, driver, part, record=True):
    robs, exp, nsub = reference(prog, info, v, w, stack, x, driver)
    obs, plain = instrumented(prog, info, v, w, route, stack, x, driver, part)
    if record:
        part["cases"] += 1
        part["evaluations"] += 1
        part["steps"] += len(exp) + 1
        if nsub:
            part["nontrivial"] += 1
        part["outcomes"][f"{route}:{'+'.join(k for k, _ in stack)}:{'sub' if nsub else 'nosub'}"] += 1
    if plain is None:
        return ("activation", f"activation failed: {obs[1]}: {obs[2]}")
    if obs != robs:
        lab, det = P.first_difference(robs, obs)
        return ("differs-from-substitution:" + str(lab), f"substituted twin vs overridden run: {det}")
    for lst in plain:
        if lst != exp:
            for i, (a, b) in enumerate(zip(exp, lst)):
                if a != b:
                    return ("plain-probe-sees-wrong-value", f"plain probe event #{i}: expected {a!r}, delivered {b!r}")
            return ("plain-probe-stream-length", f"plain probe: expected {len(exp)} events {exp[:4]!r}, delivered {len(lst)} {lst[:4]!r}")
    return None


def check_closure(prog, info, part):
    """A closure variable must never be silently overridden."""
    from ptera import probing
    from ptera.interpret import OverrideException

    if "closure" not in prog.flags:
        return
    wd = C.get_world(prog, info, "inst")
    C.fresh(wd, info)
    if "c" not in wd.f.__code__.co_freevars:
        return  # rendered inside the factory, but the body does not use the closure variable
    cell_before = wd.f.__closure__[wd.f.__code__.co_freevars.index("c")].cell_contents
    part["cases"] += 1
    part["evaluations"] += 1
    part["steps"] += 1
    res = None
    try:
        with probing("f > c", env={"f": wd.f}, overridable=True) as p:
            p.override(4242)
            obs = P.run(wd, wd.f, 1, P.DRIVERS_QUICK[0] if info["is_gen"] else None, prog.flags)
    except BaseException as e:
        res = ("activation", f"{type(e).__name__}: {e}")
        obs = None
    world.reset_context()
    C.discard_world(prog, "inst")
    if obs is None:
        part["outcomes"]["closure:activation-failed"] += 1
        return ("closure-activation", res[1])
    r = obs[0]
    raised = (r[0] == "exc" and r[1] == "OverrideException") or (r[0] == "gen" and any(t[0] == "raised" and t[1] == "OverrideException" for t in r[1]))
    never_ran = r[0] == "gen" and not any(t[0] in ("yielded", "stop", "raised") for t in r[1])
    part["outcomes"]["closure:" + ("raised" if raised else "not-raised")] += 1
    if raised:
        part["nontrivial"] += 1
    if not raised and not never_ran:
        return ("closure-silently-overridden", f"override of closure variable c did not raise OverrideException: {r!r}")
    return None


# ------------------------------------------------------------------ precedence across call paths (E2 world)
# (older selector, newer selector): both override the same binding, reached through paths of different length
PATH_PAIRS = [
    ("A > B > p", "B > p"), ("B > p", "A > B > p"), ("A > A > B > p", "A > B > p"), ("A > B > p", "A > A > B > p"),
    ("A > B > q", "B(p) > q"), ("A(p) > B > q", "B > q"), ("A > p", "A > A > p"), ("A > A > p", "A > p"),
    ("A > B > p", "C > B > p"), ("B > p", "B > p"),
]


def check_paths(idx, tier, part):
    """Two overriding probes on the same focus variable, selected through different call paths: the
    most recently activated one whose path matches wins, on every call tree with <= 4 nodes."""
    from ptera import probing
    from pv.explore import calltree as CT
    from pv.models import rss as R
    from pv.props import e2common as E

    old_text, new_text = PATH_PAIRS[idx]

    def ir(text):
        parts = [t.strip() for t in text.split(">")]
        fvar = parts[-1]
        call = None
        labels = parts[:-1]
        for lvl in reversed(range(len(labels))):
            lab = labels[lvl]
            caps = []
            if "(" in lab:
                lab, rest = lab.split("(")
                caps.append(R.cap(rest.rstrip(")"), rest.rstrip(")") + str(lvl)))
            if lvl == len(labels) - 1:
                caps.append(R.cap(fvar, fvar, focus=True))
            call = R.SCall(lab, tuple(caps), (call,) if call else ())
        return call, labels[-1].split("(")[0], fvar

    old_ir, ffn, fvar = ir(old_text)
    new_ir, ffn2, fvar2 = ir(new_text)
    assert (ffn, fvar) == (ffn2, fvar2)
    tw = E.tree_world()
    env = dict(tw.funcs)
    plain = []
    active = []
    try:
        p_old = probing(R.render(old_ir), env=env, overridable=True)
        p_old.override(1111)
        p_old.__enter__()
        active.append(p_old)
        p_new = probing(R.render(new_ir), env=env, overridable=True)
        p_new.override(2222)
        p_new.__enter__()
        active.append(p_new)
        p3 = probing(f"{ffn} > {fvar}", env=env)
        p3.subscribe(lambda ev: plain.append(ev[fvar]))
        p3.__enter__()
        active.append(p3)
        for tree in CT.trees(4 if tier == "quick" else 5):
            del plain[:]
            trace = tw.run(tree)
            E.check_static(tree, trace)
            part["cases"] += 1
            part["evaluations"] += 1
            part["steps"] += len(trace)
            hit_old = {(t, a) for t, a, e in R.immediate(trace, old_ir)}
            hit_new = {(t, a) for t, a, e in R.immediate(trace, new_ir)}
            want = []
            ix = R.Index(trace)
            for t, ev in enumerate(trace):
                if ev[0] == "bind" and ev[2] == fvar and ix.label[ev[1]] == ffn:
                    want.append(2222 if (t, ev[1]) in hit_new else 1111 if (t, ev[1]) in hit_old else ev[3])
            if hit_old & hit_new:
                part["nontrivial"] += 1
            part["outcomes"][f"paths:{bool(hit_old)}:{bool(hit_new)}:{bool(hit_old & hit_new)}"] += 1
            if want != plain:
                part["violations"].append(violation(
                    PROP, "path-precedence", {"paths": [old_text, new_text], "tree_repr": repr(tree)},
                    f"overrides {old_text} := 1111 (activated first) and {new_text} := 2222 on {CT.describe(tree)}: "
                    f"a plain probe should see {want!r}, saw {plain!r}", tags=["paths"]))
    finally:
        for a in reversed(active):
            try:
                a.__exit__(None, None, None)
            except BaseException:
                pass
    E.ensure_clean(tw)
    if not part["samples"]:
        part["samples"].append({"older": old_text, "newer": new_text})


def check_program(prog, tier, part, setname="gen"):
    info = C.analyse(prog)
    if info is None:
        return
    part["counters"]["programs"] += 1
    drivers = P.DRIVERS_QUICK[:4] if info["is_gen"] else [None]
    for v, w in focuses(prog, info):
        for route, stack in (stacks(tier) if setname == "gen" else CTL_STACKS):
            if any(o == "ctx" for _, o in stack) and not w:
                continue
            # single handlers on every input; stacks of several handlers on the odd and the even input
            for x in ((0, 1, 2) if len(stack) == 1 or tier == "thorough" else (1, 2)):
                for driver in drivers:
                    bad = check_case(prog, info, v, w, route, stack, x, driver, part)
                    if bad:
                        case = {"src": prog.src, "forms": list(prog.forms), "x": x, "driver": driver, "focus": v,
                                "ctx": w, "route": route, "stack": [list(h) for h in stack]}
                        vio = violation(PROP, bad[0], case, bad[1], tags=["route:" + route])
                        C.attribute(PROP, vio, prog, part, lambda p2: True)
    bad = check_closure(prog, info, part)
    if bad:
        part["violations"].append(violation(PROP, bad[0], {"src": prog.src, "forms": list(prog.forms), "closure": True}, bad[1], tags=["closure"]))
    if len(part["samples"]) < 2:
        part["samples"].append({"program": prog.src, "focuses": focuses(prog, info), "stacks": [s for _, s in stacks(tier)][:5]})
    C.drop_worlds(prog)


def work(unit, tier):
    part = new_partial()
    if unit[0] == "paths":
        check_paths(unit[1], tier, part)
        return part
    if unit[0] == "inside":
        check_inside(part)
        return part
    name, lo, hi = unit
    kw = dict(program_sets(tier))[name]
    for prog in C.programs_slice(tier, lo, hi, **kw):
        check_program(prog, tier, part, name)
    return part


def replay(case):
    if "inside" in case:
        part = new_partial()
        check_inside(part)
        bad = [v for v in part["violations"] if v["case"] == case]
        return (True, bad[0]["detail"]) if bad else (False, "the most recently activated override wins")
    if "paths" in case:
        part = new_partial()
        check_paths(PATH_PAIRS.index(tuple(case["paths"])), "quick", part)
        bad = [v for v in part["violations"] if v["case"]["tree_repr"] == case["tree_repr"]]
        return (True, bad[0]["detail"]) if bad else (False, "the most recently activated matching override wins")
    prog = M.Prog(case["src"], tuple(case["forms"]), C.flags_of(case["src"]), 0)
    info = C.analyse(prog)
    part = new_partial()
    if case.get("closure"):
        bad = check_closure(prog, info, part)
    else:
        drv = tuple(case["driver"]) if case["driver"] else None
        stack = [tuple(h) for h in case["stack"]]
        bad = check_case(prog, info, case["focus"], case["ctx"], case["route"], stack, case["x"], drv, part)
    C.drop_worlds(prog)
    if bad:
        return True, bad[1]
    return False, "overridden run equals the substituted twin"

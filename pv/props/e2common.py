"""Shared pieces of the E2 properties (C03, C07, C12b): selector enumeration and probe running."""
import itertools

from pv.core import world
from pv.core.runner import HarnessError
from pv.explore import calltree as CT
from pv.models import rss as R


def canonical_labelings(n, labels="ABC"):
    """Label tuples of length n up to renaming (first occurrences in order A, B, C)."""
    out = []
    for t in itertools.product(labels, repeat=n):
        seen = []
        ok = True
        for x in t:
            if x not in seen:
                if x != labels[len(seen)]:
                    ok = False
                    break
                seen.append(x)
        if ok:
            out.append(t)
    return out


CTX = [None, "p", "q"]


def SC(*a):
    return R.SCall(*a)


def chain_selectors(max_depth, focus=True):
    """f0(c0) > f1(c1) > ... (> v): every canonical labeling, every per-level context capture."""
    for d in range(1, max_depth + 1):
        for labs in canonical_labelings(d):
            for ctxs in itertools.product(CTX, repeat=d):
                fvars = ("p", "q") if focus else (None,)
                for fv in fvars:
                    call = None
                    for lvl in reversed(range(d)):
                        caps = []
                        if ctxs[lvl]:
                            caps.append(R.cap(ctxs[lvl], f"{ctxs[lvl]}{lvl}"))
                        if lvl == d - 1 and fv:
                            caps.append(R.cap(fv, fv, focus=True))
                        call = R.SCall(labs[lvl], tuple(caps), (call,) if call else ())
                    if not focus and not R.all_aliases(call):
                        continue
                    yield call


def sibling_selectors(focus=True, deep=False):
    """r(ctx, s1(cap), s2(!v)) in both textual orders; deep: s1 is itself a chain s1 > t(cap)."""
    for labs in canonical_labelings(3):
        for rc in CTX:
            for c1 in ("p", "q"):
                for fv in ("p", "q"):
                    for order in (0, 1):
                        rcaps = (R.cap(rc, rc + "0"),) if rc else ()
                        s1 = R.SCall(labs[1], (R.cap(c1, c1 + "1"),), ())
                        s2 = R.SCall(labs[2], (R.cap(fv, fv + "2", focus=focus),), ())
                        kids = (s1, s2) if order == 0 else (s2, s1)
                        yield R.SCall(labs[0], rcaps, kids)
    if deep:
        for labs in canonical_labelings(4):
            for c1 in ("p", "q"):
                for fv in ("p", "q"):
                    t = R.SCall(labs[2], (R.cap(c1, c1 + "2"),), ())
                    s1 = R.SCall(labs[1], (), (t,))
                    s2 = R.SCall(labs[3], (R.cap(fv, fv + "3", focus=focus),), ())
                    yield R.SCall(labs[0], (R.cap("p", "p0"),), (s1, s2))


def mid_sibling_selectors(focus=True):
    """r > m(s1(cap), t(!v)): the sibling calls sit in the parentheses of a link that is not the root and
    has no variable capture of its own, in both textual orders."""
    for labs in canonical_labelings(4):
        for c1 in ("p", "q"):
            for fv in ("p", "q"):
                for order in (0, 1):
                    s1 = SC(labs[2], (R.cap(c1, c1 + "2"),), ())
                    t = SC(labs[3], (R.cap(fv, fv + "3", focus=focus),), ())
                    m = SC(labs[1], (), (s1, t) if order == 0 else (t, s1))
                    yield SC(labs[0], (), (m,))


def value_selectors(focus=True):
    """Selectors that capture a return value: r(ctx, s1() as r1, s2(!v)) (the `as` inside the
    parentheses is a plain capture) and the rooted form `r(ctx) > s() as r` (focus)."""
    for labs in canonical_labelings(3):
        for rc in CTX:
            rcaps = (R.cap(rc, rc + "0"),) if rc else ()
            s1 = R.SCall(labs[1], (R.cap("#value", "r1"),), ())
            for fv in ("p", "q"):
                s2 = R.SCall(labs[2], (R.cap(fv, fv + "2", focus=focus),), ())
                yield R.SCall(labs[0], rcaps, (s1, s2))
    if focus:
        for labs in canonical_labelings(2):
            for rc in CTX:
                rcaps = (R.cap(rc, rc + "0"),) if rc else ()
                yield R.SCall(labs[0], rcaps, (R.SCall(labs[1], (R.cap("#value", "r1", focus=True),), ()),))


_WORLD = None


def tree_world():
    global _WORLD
    if _WORLD is None:
        _WORLD = CT.TreeWorld()
    return _WORLD


def reset_tree_world():
    global _WORLD
    _WORLD = None


def check_static(tree, trace):
    # return values may legitimately be overridden by the probes under test: compared without them
    strip = lambda tr: [e for e in tr if not (e[0] == "bind" and e[2] == "#value")]
    if strip(trace) != strip(CT.static_trace(tree)):
        raise HarnessError(f"runtime trace of {CT.describe(tree)} differs from the tree's own structure")


def group_by_focus(events, falias):
    """[[event, ...], ...]: consecutive events with the same focus value belong to one binding."""
    groups = []
    last = object()
    for e in events:
        v = e.get(falias, None)
        if groups and v == last:
            groups[-1].append(e)
        else:
            groups.append([e])
            last = v
    return groups


def canon(d):
    return tuple(sorted(d.items(), key=repr))


def ensure_clean(tw):
    probs = []
    for k, fn in tw.funcs.items():
        probs += world.clean_state_problems(fn, tw.orig[k])
    if probs:
        world.reset_context()
        reset_tree_world()
    return probs

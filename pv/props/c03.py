"""C03 - call-path selectors fire once per way the path matches the live call stack (E2 + RSS)."""
from pv.core import world
from pv.core.runner import new_partial, violation
from pv.explore import calltree as CT
from pv.models import rss as R
from pv.props import e2common as E

PROP = "C03"
ENGINE = "E2 call-tree explorer + reference selector semantics"
RULE = (
    "every ordered call tree with <= n nodes labelled over three mutually calling instrumented "
    "functions (direct, indirect, recursive calls, repeated siblings) x every chain selector "
    "f0(c0) > f1(c1) > .. > v up to depth 3 (labelings up to renaming, every per-level context capture, "
    "both focus variables) and every sibling selector r(ctx, s1(cap), s2(!v)) in both orders; the stream "
    "of probing(selector) must equal the RSS expectation: per focus binding, one event per embedding of "
    "the chain into the live stack, with context values from exactly the matched activations. "
    "non-trivial = distinct (tree, selector) pairs with at least one expected event; counters report pairs "
    "with >= 2 embeddings of one binding and pairs where the focus function ran but nothing may fire"
)
ASSUMPTIONS = [
    "events of different embeddings of one binding are compared as a multiset",
    "capture names are made distinct per level (same name at two levels is not asserted)",
    "the three functions have identical bodies; selectors are enumerated up to renaming of functions",
]
BOUNDS = {"quick": {"tree_nodes": 4, "chain_depth": 3}, "thorough": {"tree_nodes": 5, "chain_depth": 3, "deep_siblings": True}}


def selectors(tier):
    out = list(E.chain_selectors(3)) + list(E.sibling_selectors(deep=(tier == "thorough"))) + list(E.value_selectors())
    return out


def units(tier):
    n = len(selectors(tier))
    chunk = 4
    return [("sels", lo, min(n, lo + chunk)) for lo in range(0, n, chunk)]


def check_selector(sel, trees, part, record=True, mixed=False):
    from ptera import probing

    rss_ok = R.self_check()
    tw = E.tree_world()
    text = R.render(sel, mixed=mixed)
    falias = [c for c in R.focus_path(sel)[-1].caps if c.focus][0].alias
    events = []
    try:
        p = probing(text, env=dict(tw.funcs))
        p.subscribe(events.append)
        p.__enter__()
    except BaseException as e:
        world.reset_context()
        E.reset_tree_world()
        part["violations"].append(violation(PROP, "activation", {"selector": text}, f"{type(e).__name__}: {e}", tags=["activation"]))
        return
    try:
        for tree in trees:
            del events[:]
            try:
                trace = tw.run(tree)
            except BaseException as e:
                part["violations"].append(violation(
                    PROP, "call-failed", {"selector": text, "tree": list(tree)}, f"{CT.describe(tree)}: {type(e).__name__}: {e}", tags=["call-failed"]))
                continue
            E.check_static(tree, trace)
            exp = R.immediate(trace, sel)
            part["cases"] += 1
            part["evaluations"] += 1
            part["steps"] += len(trace)
            if exp:
                part["nontrivial"] += 1
            # group expected by binding
            egroups = []
            for t, aid, ev in exp:
                if egroups and egroups[-1][0] == (t, aid):
                    egroups[-1][1].append(ev)
                else:
                    egroups.append(((t, aid), [ev]))
            if any(len(g[1]) > 1 for g in egroups):
                part["counters"]["pairs-with-multiple-embeddings"] += 1
            if not exp:
                part["counters"]["pairs-without-match"] += 1
            part["outcomes"][f"groups={min(len(egroups), 4)}:maxemb={min(max([len(g[1]) for g in egroups] or [0]), 3)}"] += 1
            got = E.group_by_focus(list(events), falias)
            want = [sorted(map(E.canon, g[1])) for g in egroups]
            have = [sorted(map(E.canon, g)) for g in got]
            if want != have:
                detail = f"{text} on {CT.describe(tree)}: expected {[g[1] for g in egroups]!r}, delivered {list(events)!r}"
                kind = "wrong-events"
                nw, nh = sum(map(len, want)), sum(map(len, have))
                if nh < nw:
                    kind = "missing-events"
                elif nh > nw:
                    kind = "extra-events"
                part["violations"].append(violation(PROP, kind, {"selector": text, "tree": [list(map(str, [tree[0]])), list(tree[1]), tree[2]], "tree_repr": repr(tree)}, detail, tags=[kind]))
    finally:
        try:
            p.__exit__(None, None, None)
        except BaseException as e:
            part["violations"].append(violation(PROP, "deactivation", {"selector": text}, f"{type(e).__name__}: {e}", tags=["deactivation"]))
    E.ensure_clean(tw)


_TREES = {}


def tree_list(tier):
    if tier not in _TREES:
        _TREES[tier] = list(CT.trees(BOUNDS[tier]["tree_nodes"]))
    return _TREES[tier]


def work(unit, tier):
    part = new_partial()
    _, lo, hi = unit
    for n, sel in enumerate(selectors(tier)[lo:hi]):
        # alternate between the all-parentheses and the mixed '>' spelling of the same selector
        check_selector(sel, tree_list(tier), part, mixed=bool((lo + n) % 2) or len(sel.children) > 1)
        if len(sel.children) > 1:
            check_selector(sel, tree_list(tier), part, mixed=False)
        if len(part["samples"]) < 2:
            part["samples"].append({"selector": R.render(sel), "example_tree": CT.describe(tree_list(tier)[200])})
    return part


def replay(case):
    part = new_partial()
    tree = eval(case["tree_repr"]) if "tree_repr" in case else None
    for tier in ("thorough",):
        for sel in selectors(tier):
            for mixed in (False, True):
                if R.render(sel, mixed=mixed) != case["selector"]:
                    continue
                check_selector(sel, [tree] if tree else tree_list("quick"), part, mixed=mixed)
                if part["violations"]:
                    return True, part["violations"][0]["detail"]
                return False, "stream equals the RSS expectation"
    return False, "selector not in the enumerated space"

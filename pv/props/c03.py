"""C03 - call-path selectors fire once per way the path matches the live call stack (E2 + RSS)."""
from pv.core import world
from pv.core.runner import new_partial, violation
from pv.explore import calltree as CT
from pv.models import rss as R
from pv.props import e2common as E

PROP = "C03"
ENGINE = "E2 call-tree explorer + reference selector semantics"
RULE = (
    "every ordered call tree with <= n nodes labelled over three mutually calling instrumented "
    "functions (direct, indirect, recursive calls, repeated siblings) x every chain selector "
    "f0(c0) > f1(c1) > .. > v up to depth 3 (labelings up to renaming, every per-level context capture, "
    "both focus variables), every sibling selector r(ctx, s1(cap), s2(!v)) in both orders, and every selector "
    "r > m(s1(cap), t(!v)) whose sibling calls hang off a capture-free middle link (on trees of <= 5 nodes); the stream "
    "of probing(selector) must equal the RSS expectation: per focus binding, one event per embedding of "
    "the chain into the live stack, with context values from exactly the matched activations. "
    "non-trivial = distinct (tree, selector) pairs with at least one expected event; counters report pairs "
    "with >= 2 embeddings of one binding and pairs where the focus function ran but nothing may fire"
)
ASSUMPTIONS = [
    "events of different embeddings of one binding are compared as a multiset",
    "capture names are made distinct per level (same name at two levels is not asserted)",
    "the three functions have identical bodies; selectors are enumerated up to renaming of functions",
]
BOUNDS = {"quick": {"tree_nodes": 4, "chain_depth": 3}, "thorough": {"tree_nodes": 5, "chain_depth": 3, "deep_siblings": True}}


def selectors(tier):
    out = list(E.chain_selectors(3)) + list(E.sibling_selectors(deep=(tier == "thorough"))) + list(E.value_selectors())
    return out


TWIN_SRC = '''
def make(k):
    def node(x):
        p = x + k
        return p
    return node

f1 = make(100)
f2 = make(200)

def outer(seq):
    for fn, x in seq:
        fn(x)
'''


def check_same_qualname(part):
    """Two function objects made by one factory (same __qualname__, same source, distinct identity):
    a selector names one of them; every call sequence of length <= 3 over the two, with a probe on one,
    on the other, or on both (in both activation orders), directly and under an instrumented caller."""
    import itertools
    from ptera import probing

    ns = world.make_module(TWIN_SRC)
    f = {"f1": ns["f1"], "f2": ns["f2"]}
    off = {"f1": 100, "f2": 200}
    seqs = [s for n in (1, 2, 3) for s in itertools.product(("f1", "f2"), repeat=n)]
    for active in (("f1",), ("f2",), ("f1", "f2"), ("f2", "f1")):
        for via in ("direct", "outer"):
            for seq in seqs:
                got = {a: [] for a in active}
                probes = []
                text = {a: (f"{a} > p" if via == "direct" else f"outer > {a} > p") for a in active}
                try:
                    for a in active:
                        pr = probing(text[a], env=dict(ns))
                        pr.subscribe(lambda ev, a=a: got[a].append(ev["p"]))
                        pr.__enter__()
                        probes.append(pr)
                    calls = [(f[name], i + 1) for i, name in enumerate(seq)]
                    if via == "direct":
                        for fn, x in calls:
                            fn(x)
                    else:
                        ns["outer"](calls)
                except BaseException as e:
                    part["violations"].append(violation(PROP, "same-qualname", {"twins": True, "active": list(active), "via": via, "seq": list(seq)},
                                                        f"{type(e).__name__}: {e}", tags=["same-qualname"]))
                    continue
                finally:
                    for pr in reversed(probes):
                        try:
                            pr.__exit__(None, None, None)
                        except BaseException:
                            pass
                part["cases"] += 1
                part["evaluations"] += 1
                part["steps"] += len(seq)
                part["nontrivial"] += 1
                part["outcomes"]["same-qualname"] += 1
                want = {a: [i + 1 + off[a] for i, name in enumerate(seq) if name == a] for a in active}
                if got != want:
                    part["violations"].append(violation(
                        PROP, "same-qualname", {"twins": True, "active": list(active), "via": via, "seq": list(seq)},
                        f"probes {[text[a] for a in active]} on two functions made by one factory, calls {list(seq)} ({via}): "
                        f"expected {want!r}, delivered {got!r}", tags=["same-qualname"]))
    world.reset_context()


def mid_selectors():
    return list(E.mid_sibling_selectors())


def units(tier):
    n = len(selectors(tier))
    chunk = 4
    m = len(mid_selectors())
    return [("sels", lo, min(n, lo + chunk)) for lo in range(0, n, chunk)] + [("mid", lo, min(m, lo + 2)) for lo in range(0, m, 2)] + [("twins",)]


def check_selector(sel, trees, part, record=True, mixed=False):
    from ptera import probing

    rss_ok = R.self_check()
    tw = E.tree_world()
    text = R.render(sel, mixed=mixed)
    falias = [c for c in R.focus_path(sel)[-1].caps if c.focus][0].alias
    events = []
    kept = []  # raw events of a second probe on the same selector, only read after the tree has run
    p2 = None
    try:
        p = probing(text, env=dict(tw.funcs))
        p.subscribe(events.append)
        p.__enter__()
        p2 = probing(text, env=dict(tw.funcs), raw=True)
        p2.subscribe(kept.append)
        p2.__enter__()
    except BaseException as e:
        world.reset_context()
        E.reset_tree_world()
        part["violations"].append(violation(PROP, "activation", {"selector": text}, f"{type(e).__name__}: {e}", tags=["activation"]))
        return
    try:
        for tree in trees:
            del events[:]
            del kept[:]
            try:
                trace = tw.run(tree)
            except BaseException as e:
                part["violations"].append(violation(
                    PROP, "call-failed", {"selector": text, "tree": list(tree)}, f"{CT.describe(tree)}: {type(e).__name__}: {e}", tags=["call-failed"]))
                continue
            E.check_static(tree, trace)
            exp = R.immediate(trace, sel)
            part["cases"] += 1
            part["evaluations"] += 1
            part["steps"] += len(trace)
            if exp:
                part["nontrivial"] += 1
            # group expected by binding
            egroups = []
            for t, aid, ev in exp:
                if egroups and egroups[-1][0] == (t, aid):
                    egroups[-1][1].append(ev)
                else:
                    egroups.append(((t, aid), [ev]))
            if any(len(g[1]) > 1 for g in egroups):
                part["counters"]["pairs-with-multiple-embeddings"] += 1
            if not exp:
                part["counters"]["pairs-without-match"] += 1
            part["outcomes"][f"groups={min(len(egroups), 4)}:maxemb={min(max([len(g[1]) for g in egroups] or [0]), 3)}"] += 1
            got = E.group_by_focus(list(events), falias)
            want = [sorted(map(E.canon, g[1])) for g in egroups]
            have = [sorted(map(E.canon, g)) for g in got]
            if want == have:
                # an event is a record of the moment it was delivered: the raw events, read now, show the same
                late = [{k: c.values[-1] for k, c in ev.items() if c.values} for ev in kept]
                if late != list(events):
                    part["violations"].append(violation(
                        PROP, "event-changed-after-delivery", {"selector": text, "tree": [list(map(str, [tree[0]])), list(tree[1]), tree[2]], "tree_repr": repr(tree)},
                        f"{text} on {CT.describe(tree)}: raw events read after the run show {late!r}; when delivered they were {list(events)!r}",
                        tags=["event-changed-after-delivery"]))
            if want != have:
                detail = f"{text} on {CT.describe(tree)}: expected {[g[1] for g in egroups]!r}, delivered {list(events)!r}"
                kind = "wrong-events"
                nw, nh = sum(map(len, want)), sum(map(len, have))
                if nh < nw:
                    kind = "missing-events"
                elif nh > nw:
                    kind = "extra-events"
                part["violations"].append(violation(PROP, kind, {"selector": text, "tree": [list(map(str, [tree[0]])), list(tree[1]), tree[2]], "tree_repr": repr(tree)}, detail, tags=[kind]))
    finally:
        for q in (p2, p):
            try:
                q.__exit__(None, None, None)
            except BaseException as e:
                part["violations"].append(violation(PROP, "deactivation", {"selector": text}, f"{type(e).__name__}: {e}", tags=["deactivation"]))
    E.ensure_clean(tw)


_TREES = {}


def tree_list(tier):
    if tier not in _TREES:
        _TREES[tier] = list(CT.trees(BOUNDS[tier]["tree_nodes"]))
    return _TREES[tier]


def work(unit, tier):
    part = new_partial()
    if unit[0] == "twins":
        check_same_qualname(part)
        return part
    _, lo, hi = unit
    if unit[0] == "mid":
        # two activations of the middle link under one outer activation need five nodes
        if "mid" not in _TREES:
            _TREES["mid"] = list(CT.trees(5))
        for sel in mid_selectors()[lo:hi]:
            check_selector(sel, _TREES["mid"], part, mixed=True)
        return part
    for n, sel in enumerate(selectors(tier)[lo:hi]):
        # alternate between the all-parentheses and the mixed '>' spelling of the same selector
        check_selector(sel, tree_list(tier), part, mixed=bool((lo + n) % 2) or len(sel.children) > 1)
        if len(sel.children) > 1:
            check_selector(sel, tree_list(tier), part, mixed=False)
        if len(part["samples"]) < 2:
            part["samples"].append({"selector": R.render(sel), "example_tree": CT.describe(tree_list(tier)[200])})
    return part


def replay(case):
    part = new_partial()
    if case.get("twins"):
        check_same_qualname(part)
        bad = [v for v in part["violations"] if v["case"] == case]
        return (True, bad[0]["detail"]) if bad else (False, "each probe receives exactly the calls of its own function")
    tree = eval(case["tree_repr"]) if "tree_repr" in case else None
    for tier in ("thorough",):
        for sel in selectors(tier) + mid_selectors():
            for mixed in (False, True):
                if R.render(sel, mixed=mixed) != case["selector"]:
                    continue
                check_selector(sel, [tree] if tree else tree_list("quick"), part, mixed=mixed)
                if part["violations"]:
                    return True, part["violations"][0]["detail"]
                return False, "stream equals the RSS expectation"
    return False, "selector not in the enumerated space"

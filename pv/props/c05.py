"""C05 - probes deliver exactly-once while active and leave no trace once deactivated (E3)."""
from pv.core import world
from pv.core.runner import new_partial, violation, open_findings
from pv.explore import history as H

PROP = "C05"
ENGINE = "E3 history explorer (explicit-state BFS over replayed histories)"
RULE = (
    "breadth-first search over all operation sequences up to the depth bound over the alphabet "
    "{activate / deactivate global-style probe i (any order), enter / leave / leave-by-exception "
    "with-style probe or overlay j (LIFO among with-blocks, freely interleaved with global operations), "
    "refused activation, call f, call g, call h} in three worlds: W1 probes f>a, f>b, g>f>a, f(a)>b, f>b with "
    "a max() reduction (which raises at completion when its window is empty) and a non-tooling overlay on "
    "f>a; W2 f>a, f(a)>b, an Overlay.tapping block on f>a and a total probe g(c, f(b)) whose subscriber "
    "raises when g ends; W3 f>a plus an overlay on h>e and a probe on h>d where h is permanently tooled; W4 f>a, f>b, an overlay "
    "object on f>a that may be entered a second time while it is entered, and an overlay derived from it by "
    "fork() (sharing its handler) with one more handler, nested in any order; W5 f>a and a "
    "probe on the generator function t, with {start, advance, close, drop} of one generator of t as extra "
    "operations (what the generator body itself delivers is not asserted, only the state and every call); "
    "W2 and W3 also have a call inside a block shielded by no_overlay() (nothing is delivered) and an "
    "exception leaving such a block as operations, W3 an overlay entered, used and left inside a copy of the "
    "current context; W6 f>a and k>a where the body of k activates or deactivates one of the two global probes "
    "between its own two bindings; each history is replayed on a fresh world through the real API with a boring model (set of "
    "active probes => expected per-probe streams) in lock-step; after every step: every active probe got "
    "exactly the expected new events, inactive probes none, instrumentation counters equal the model's, "
    "and at quiescence f and g run their original code objects, no handler collection is installed, "
    "module globals are unchanged and global_probes is empty. States are deduplicated on a canonical key of "
    "the implementation state (handler collection, counters, installed variant, token links)"
)
ASSUMPTIONS = [
    "state merging is sound because every operation reads only the fields in the canonical key; the "
    "thorough tier audits merged states by executing all one-step extensions from two representatives",
    "error states are not expanded (violations are minimal histories)",
]
BOUNDS = {"quick": {"depth": 5}, "thorough": {"depth": 6, "merge_audit_depth": 3}}

SRC = '''
from ptera import tooled

def f(x):
    a = x + 1
    b = a * 2
    return b

def g(x):
    c = f(x)
    return c

@tooled
def h(x):
    d = x + 5
    e = d * 3
    return e

HOOK = [None]

def t(n):
    for i in range(n):
        v = i * 10
        if HOOK[0] is not None:
            HOOK[0]()
        yield v

def k(x):
    # between its two bindings k runs whatever the harness put in HOOK (activate / deactivate a probe)
    a = x + 1
    if HOOK[0] is not None:
        HOOK[0]()
    b = a * 2
    return b

@tooled
def kt(x):
    # the same, permanently tooled: its body runs as an instrumented call even when no handler is installed
    a = x + 1
    if HOOK[0] is not None:
        HOOK[0]()
    b = a * 2
    return b

@tooled
def tg(n):
    for i in range(n):
        v = i * 10
        if HOOK[0] is not None:
            HOOK[0]()
        yield v
'''

# slot -> kind, selector, style (global: any order; with: LIFO among with-slots), functions it tools,
#         whether it makes f instrumented for `a`
SLOTS = {
    0: ("probe", "f > a", "global", ("f",), True),
    1: ("probe", "f > b", "global", ("f",), False),
    2: ("probe", "g > f > a", "global", ("f", "g"), True),
    3: ("probe", "f(a) > b", "with", ("f",), True),
    4: ("overlay", "f > a", "with", (), False),            # non-tooling overlay: sees `a` only while instrumented
    5: ("reduce", "f > b", "global", ("f",), False),        # max() reduction: raises at completion when empty
    6: ("tapping", "f > a", "with", (), False),             # Overlay.tapping context manager (non-tooling)
    7: ("raising-total", "g(c, f(b))", "global", ("f", "g"), False),  # total probe whose subscriber raises
    8: ("overlay", "h > e", "with", (), False),             # overlay on the permanently tooled function h
    9: ("probe", "h > d", "global", (), False),             # probe on the tooled function h
    10: ("fork", "f > b", "with", (), False),               # fork of overlay 4 (shares its handler) plus a tap on f > b
    11: ("probe", "t > v", "global", ("t",), False),        # probe on the generator function t
    12: ("probe", "k > a", "global", ("k",), False),        # probe on k, whose body can (de)activate probes
}
# slots whose activation instruments f for b
INSTRUMENTS_B = (1, 3, 5, 7)
# the with-style overlay that W4 may enter a second time while it is already entered (same object)
REENTRANT = 4
WORLDS = {
    "W1": (0, 1, 2, 3, 4, 5),
    "W2": (0, 3, 6, 7),
    "W3": (0, 8, 9),
    # W4: the same overlay object entered twice, and an overlay derived from it by fork(), nested in any order
    "W4": (0, 1, 4, 10),
    # W5: a generator of t is started, advanced, closed or dropped at any point of the history
    "W5": (0, 11),
    # W6: global probes are activated / deactivated by code that runs inside a call of k
    "W6": (0, 12),
}


def expected_events(slot, fn, x, instrumented_a):
    # Events `slot` receives from one call of fn(x).
    a, b = x + 1, (x + 1) * 2
    if fn == "k":
        return [{"a": a}] if slot == 12 else []
    if slot == 12:
        return []
    if fn == "h":
        if slot == 8:
            return [{"e": (x + 5) * 3}]
        if slot == 9:
            return [{"d": x + 5}]
        return []
    if slot == 0:
        return [{"a": a}]
    if slot in (1, 5):
        return [{"b": b}]
    if slot == 2:
        return [{"a": a}] if fn == "g" else []
    if slot == 3:
        return [{"a": a, "b": b}]
    if slot in (4, 6):
        return [{"a": a}] if instrumented_a else []
    return []


class World:
    def __init__(self):
        self.ns = world.make_module(SRC)
        self.f, self.g, self.h, self.t = self.ns["f"], self.ns["g"], self.ns["h"], self.ns["t"]
        self.k = self.ns["k"]
        self.orig = {"f": self.f.__code__, "g": self.g.__code__, "h": self.h.__code__, "t": self.t.__code__, "k": self.k.__code__}
        self.depth = {}
        self.gen = None
        self.base4 = None
        self.globals_before = {k: v for k, v in self.ns.items()}
        self.probes = {}
        self.streams = {i: [] for i in SLOTS}
        self.calls = 0


class System:
    def __init__(self, wname="W1", with_bad=True):
        self.slots = WORLDS[wname]
        self.wname = wname
        self.with_bad = with_bad

    # ---- model
    def initial_model(self):
        # (active global slots in activation order, with-stack, calls so far)
        return ((), (), 0, "none")

    def enabled(self, model):
        act, wstack, calls, gen = model
        ops = []
        for i in self.slots:
            if SLOTS[i][2] == "global":
                ops.append(("act", i) if i not in act else ("deact", i))
            elif i not in wstack or (self.wname == "W4" and i == REENTRANT and wstack.count(i) < 2):
                ops.append(("enter", i))
        if wstack:
            ops.append(("leave", wstack[-1]))
            ops.append(("leave_exc", wstack[-1]))
        if self.with_bad and self.wname not in ("W5", "W6"):
            ops.append(("act_bad",))
        ops += [("call", "f"), ("call", "g")]
        if self.wname == "W3":
            ops.append(("call", "h"))
        if self.wname in ("W2", "W3"):
            # a block shielded from every overlay (ptera.overlay.no_overlay): a call inside it, and
            # an exception leaving it
            ops += [("shield", "call"), ("shield", "raise")]
        if self.wname == "W6":
            ops.append(("callk",))
            for i in self.slots:
                ops.append(("callk-act", i) if i not in act else ("callk-deact", i))
                # the same through the permanently tooled twin of k
                ops.append(("callkt-act", i) if i not in act else ("callkt-deact", i))
            for i in self.slots:
                for j in self.slots:
                    if i in act and j not in act:
                        ops.append(("callk-swap", i, j))  # the call deactivates i, then activates j
            for i in self.slots:
                # a global probe activated / deactivated inside a block shielded by no_overlay()
                ops.append(("shield-act", i) if i not in act else ("shield-deact", i))
        if self.wname == "W3":
            # inside a copy of the current context (what a worker thread started with copy_context().run
            # sees): one more overlay on h is entered, h is called, the overlay is left
            ops.append(("ctxrun",))
        if self.wname == "W5":
            ops += [("gen", "start"), ("gen", "start-tooled")] if gen == "none" else [("gen", "next"), ("gen", "close"), ("gen", "drop")]
            if gen != "none" and gen < 3:
                # the next step of the generator's own body activates / deactivates a global probe before it yields
                for i in self.slots:
                    if SLOTS[i][2] == "global":
                        ops.append(("gnext-act", i) if i not in act else ("gnext-deact", i))
                        if i in act:
                            # the same after the body has entered and left a with-block of its own
                            ops.append(("gnext-deact2", i))
                            for j in self.slots:
                                if SLOTS[j][2] == "global" and j not in act:
                                    ops.append(("gnext-swap", i, j))  # the body deactivates i, then activates j
        return ops

    def step_model(self, model, op):
        act, wstack, calls, gen = model
        if op[0] == "act":
            return ((act + (op[1],)), wstack, calls, gen), "ok"
        if op[0] == "deact":
            return (tuple(i for i in act if i != op[1]), wstack, calls, gen), "ok"
        if op[0] == "enter":
            return (act, wstack + (op[1],), calls, gen), "ok"
        if op[0] in ("leave", "leave_exc"):
            return (act, wstack[:-1], calls, gen), "ok"
        if op[0] == "act_bad":
            return model, "refused"
        if op[0] in ("shield-act", "shield-deact"):
            act = act + (op[1],) if op[0] == "shield-act" else tuple(i for i in act if i != op[1])
            return (act, wstack, calls, gen), "ok"
        if op[0] in ("callkt-act", "callkt-deact"):
            x = calls + 1
            act = act + (op[1],) if op[0] == "callkt-act" else tuple(i for i in act if i != op[1])
            return (act, wstack, x, gen), ("result", (x + 1) * 2, ())
        if op[0] in ("callk", "callk-act", "callk-deact", "callk-swap"):
            x = calls + 1
            exp = {s: expected_events(s, "k", x, False) for s in act}
            exp = tuple(sorted((s, tuple(map(_canon, e))) for s, e in exp.items() if e))
            if op[0] == "callk-act":
                act = act + (op[1],)
            elif op[0] == "callk-deact":
                act = tuple(i for i in act if i != op[1])
            elif op[0] == "callk-swap":
                act = tuple(i for i in act if i != op[1]) + (op[2],)
            return (act, wstack, x, gen), ("result", (x + 1) * 2, exp)
        if op[0] == "ctxrun":
            x = calls + 1
            active = list(act) + list(wstack) + [8]
            exp = {s: expected_events(s, "h", x, False) * active.count(s) for s in set(active)}
            exp = tuple(sorted((s, tuple(map(_canon, e))) for s, e in exp.items() if e))
            return (act, wstack, x, gen), ("result", (x + 5) * 3, exp)
        if op[0] == "shield":
            if op[1] == "call":
                return (act, wstack, calls + 1, gen), ("result", (calls + 2) * 2, ())
            return model, "ok"
        if op[0] in ("gnext-act", "gnext-deact", "gnext-deact2", "gnext-swap"):
            act = act + (op[1],) if op[0] == "gnext-act" else tuple(i for i in act if i != op[1])
            if op[0] == "gnext-swap":
                act = act + (op[2],)
            return (act, wstack, calls, gen + 1), "ok"
        if op[0] == "gen":
            # what the generator's own body delivers, and to whom, is C09's subject: not asserted here
            gen = {"start": 1, "start-tooled": 1, "next": (gen + 1 if gen != "none" and gen < 3 else "none"), "close": "none", "drop": "none"}[op[1]]
            return (act, wstack, calls, gen), "ok"
        if op[0] == "call":
            x = calls + 1
            active = list(act) + list(wstack)
            inst_a = any(SLOTS[s][4] for s in active)
            inst_b = any(s in INSTRUMENTS_B for s in active)
            exp = {}
            for s in set(active):
                if s == 10:
                    exp[s] = [{"b": (x + 1) * 2}] if inst_b else []
                else:
                    exp[s] = expected_events(s, op[1], x, inst_a)
            # the handler of overlay 4 is installed once per entered occurrence of 4 and of its fork 10
            n4 = active.count(4) + active.count(10)
            if n4:
                exp[4] = expected_events(4, op[1], x, inst_a) * n4
            exp = tuple(sorted((s, tuple(map(_canon, e))) for s, e in exp.items() if e))
            if op[1] == "g" and 7 in active:
                # the total probe's subscriber raises when g's record is published at g's exit
                return (act, wstack, x, gen), ("raised-call", "ZeroDivisionError", exp)
            result = (x + 5) * 3 if op[1] == "h" else (x + 1) * 2
            return (act, wstack, x, gen), ("result", result, exp)
        raise KeyError(op)

    def model_key(self, model):
        act, wstack, calls, gen = model
        return (act, wstack, gen)

    def outcome_class(self, model):
        return (self.wname, len(model[0]), len(model[1]))

    # ---- implementation
    def fresh(self):
        world.reset_context()
        return World()

    def _make(self, w, slot):
        from ptera import probing, BaseOverlay, Immediate, Overlay
        from ptera.selector import select

        env = {"f": w.f, "g": w.g, "h": w.h, "t": w.t, "k": w.k}
        kind, text = SLOTS[slot][0], SLOTS[slot][1]

        def overlay(slot):
            sel = select(SLOTS[slot][1], env=env)
            return BaseOverlay(Immediate(sel, trigger=lambda ev, s=slot: w.streams[s].append({k: c.value for k, c in ev.items()})))

        if kind == "overlay":
            if slot == REENTRANT:
                # one object per world: its fork (slot 10) shares the handler
                if w.base4 is None:
                    w.base4 = overlay(slot)
                return w.base4
            return overlay(slot)
        if kind == "fork":
            if w.base4 is None:
                w.base4 = overlay(REENTRANT)
            ol = w.base4.fork()
            sel = select(text, env=env)
            ol.add(Immediate(sel, trigger=lambda ev, s=slot: w.streams[s].append({k: c.value for k, c in ev.items()})))
            return ol
        if kind == "tapping":
            return Overlay.tapping(select(text, env=env), dest=w.streams[slot])
        p = probing(text, env=env)
        if kind == "raising-total":
            p.subscribe(lambda ev: 1 // 0)
            return p
        p.subscribe(lambda ev, s=slot: w.streams[s].append(dict(ev)))
        if kind == "reduce":
            # a reducing stage: max() of an empty window has no result and raises at completion
            p["b"].max().subscribe(lambda v: None)
        return p

    def apply(self, w, op):
        try:
            if op[0] in ("act", "enter"):
                p = w.probes[op[1]] if op[1] in w.probes else self._make(w, op[1])
                w.probes[op[1]] = p
                w.depth[op[1]] = w.depth.get(op[1], 0) + 1
                p.__enter__()
                return "ok"
            if op[0] in ("callk", "callk-act", "callk-deact", "callk-swap", "callkt-act", "callkt-deact"):
                for s in w.streams.values():
                    del s[:]
                w.calls += 1
                hook = w.ns["HOOK"]
                target = w.ns["kt"] if op[0].startswith("callkt") else w.k
                if op[0] in ("callk-act", "callkt-act"):
                    def inside(slot=op[1]):
                        p = self._make(w, slot)
                        w.probes[slot] = p
                        w.depth[slot] = 1
                        p.__enter__()
                    hook[0] = inside
                elif op[0] == "callk-swap":
                    def swap(old=op[1], new=op[2]):
                        w.probes.pop(old).__exit__(None, None, None)
                        p = self._make(w, new)
                        w.probes[new] = p
                        w.depth[new] = 1
                        p.__enter__()
                    hook[0] = swap
                elif op[0] in ("callk-deact", "callkt-deact"):
                    hook[0] = lambda slot=op[1]: w.probes.pop(slot).__exit__(None, None, None)
                try:
                    r = target(w.calls)
                finally:
                    hook[0] = None
                got = {s: list(e) for s, e in w.streams.items() if e}
                return ("result", r, tuple(sorted((s, tuple(map(_canon, e))) for s, e in got.items())))
            if op[0] == "ctxrun":
                import contextvars

                for s in w.streams.values():
                    del s[:]
                w.calls += 1

                def inner():
                    with self._make(w, 8):
                        return w.h(w.calls)

                r = contextvars.copy_context().run(inner)
                got = {s: list(e) for s, e in w.streams.items() if e}
                return ("result", r, tuple(sorted((s, tuple(map(_canon, e))) for s, e in got.items())))
            if op[0] in ("shield-act", "shield-deact"):
                from ptera.overlay import no_overlay

                with no_overlay():
                    if op[0] == "shield-act":
                        p = self._make(w, op[1])
                        w.probes[op[1]] = p
                        w.depth[op[1]] = 1
                        p.__enter__()
                    else:
                        w.probes.pop(op[1]).__exit__(None, None, None)
                return "ok"
            if op[0] == "shield":
                from ptera.overlay import no_overlay

                for s in w.streams.values():
                    del s[:]
                if op[1] == "call":
                    w.calls += 1
                    with no_overlay():
                        r = w.f(w.calls)
                    got = {s: list(e) for s, e in w.streams.items() if e}
                    return ("result", r, tuple(sorted((s, tuple(map(_canon, e))) for s, e in got.items())))
                try:
                    with no_overlay():
                        raise KeyError("leaving the shielded block by an exception")
                except KeyError:
                    pass
                return "ok"
            if op[0] in ("gnext-act", "gnext-deact", "gnext-deact2", "gnext-swap"):
                for s in w.streams.values():
                    del s[:]
                hook = w.ns["HOOK"]
                if op[0] == "gnext-act":
                    def inside(slot=op[1]):
                        p = self._make(w, slot)
                        w.probes[slot] = p
                        w.depth[slot] = 1
                        p.__enter__()
                    hook[0] = inside
                elif op[0] == "gnext-swap":
                    def swap2(old=op[1], new=op[2]):
                        w.probes.pop(old).__exit__(None, None, None)
                        p = self._make(w, new)
                        w.probes[new] = p
                        w.depth[new] = 1
                        p.__enter__()
                    hook[0] = swap2
                elif op[0] == "gnext-deact2":
                    def inside2(slot=op[1]):
                        with self._make(w, 8):
                            pass
                        w.probes.pop(slot).__exit__(None, None, None)
                    hook[0] = inside2
                else:
                    hook[0] = lambda slot=op[1]: w.probes.pop(slot).__exit__(None, None, None)
                try:
                    next(w.gen)
                finally:
                    hook[0] = None
                return "ok"
            if op[0] == "gen":
                import gc

                for s in w.streams.values():
                    del s[:]
                if op[1] in ("start", "start-tooled"):
                    w.gen = (w.t if op[1] == "start" else w.ns["tg"])(3)
                    next(w.gen)
                elif op[1] == "next":
                    try:
                        next(w.gen)
                    except StopIteration:
                        w.gen = None
                elif op[1] == "close":
                    w.gen.close()
                    w.gen = None
                else:
                    w.gen = None
                    gc.collect()
                return "ok"
            if op[0] == "deact":
                p = w.probes.pop(op[1])
                if op[1] == 5:
                    # whether an empty reduction raises is not asserted; the state afterwards is
                    try:
                        p.__exit__(None, None, None)
                    except Exception:
                        pass
                    return "ok"
                p.__exit__(None, None, None)
                return "ok"
            if op[0] in ("leave", "leave_exc"):
                w.depth[op[1]] -= 1
                p = w.probes[op[1]] if w.depth[op[1]] else w.probes.pop(op[1])
                if op[0] == "leave":
                    p.__exit__(None, None, None)
                    return "ok"
                e = ValueError("leaving the block by an exception")
                r = p.__exit__(ValueError, e, None)
                return "ok" if not r else "swallowed-the-exception"
            if op[0] == "act_bad":
                from ptera import probing
                from ptera.selector import SelectorError

                try:
                    p = probing("f > nope", env={"f": w.f})
                    p.__enter__()
                except SelectorError:
                    return "refused"
                p.__exit__(None, None, None)
                return "accepted"
            if op[0] == "call":
                for s in w.streams.values():
                    del s[:]
                w.calls += 1
                fn = {"f": w.f, "g": w.g, "h": w.h}[op[1]]
                w.depth = {k: v for k, v in w.depth.items() if v}
                try:
                    r = fn(w.calls)
                except ZeroDivisionError:
                    got = {s: list(e) for s, e in w.streams.items() if e}
                    return ("raised-call", "ZeroDivisionError", tuple(sorted((s, tuple(map(_canon, e))) for s, e in got.items())))
                got = {s: list(e) for s, e in w.streams.items() if e}
                return ("result", r, tuple(sorted((s, tuple(map(_canon, e))) for s, e in got.items())))
        except BaseException as e:
            return ("raised", type(e).__name__, str(e)[:200])
        raise KeyError(op)

    def impl_key(self, w):
        from ptera.overlay import HandlerCollection
        from ptera import probe as probe_mod

        from pv.core import introspect as I

        pairs = I.current_pairs()
        slot_of = {}
        for s, p in sorted(w.probes.items()):
            ol = getattr(p, "_ol", p)
            for h in getattr(ol, "handlers", ()):
                slot_of.setdefault(id(h), s)
        hc = None if pairs is None else "unknown" if pairs is I.UNKNOWN else tuple(slot_of.get(id(acc), "?") for _, acc in pairs)
        fns = []
        for name in ("f", "g", "h", "t", "k"):
            fn = w.ns[name]
            fns.append((name, I.stack_state(fn), fn.__code__ is w.orig[name]))
        return (hc, tuple(sorted(w.probes)), tuple(fns), I.n_global_probes(), w.gen is not None)

    def invariant(self, w, model):
        from ptera.overlay import HandlerCollection
        from ptera import probe as probe_mod

        act, wstack, calls, gen = model
        probs = []
        active = list(act) + list(wstack)
        for name in ("f", "g", "t", "k"):
            n = sum(1 for s in active if name in SLOTS[s][3])
            fn = w.ns[name]
            from pv.core import introspect as I

            cnt = I.count_of(fn)
            if cnt != n and (I.stack_of(fn) is None or I.stack_state(fn)[0] is not None):
                probs.append(f"{name}: instrument_count={cnt} but {n} active probes refer to it")
            if n == 0:
                if fn.__code__ is not w.orig[name]:
                    probs.append(f"{name} does not run its original code although no probe is active on it")
                if I.leftover_captures(fn):
                    probs.append(f"{name}: capture counters left over {I.leftover_captures(fn)}")
                try:
                    from ptera.utils import is_tooled

                    if is_tooled(fn):
                        probs.append(f"{name} still counts as a tooled function (ptera.utils.is_tooled) although no probe is active on it")
                except ImportError:
                    pass
        # every installed handler belongs to something that is active
        pairs = I.current_pairs()
        if pairs is not None and pairs is not I.UNKNOWN:
            mine = set()
            opaque = False
            for s_, p_ in w.probes.items():
                ol = getattr(p_, "_ol", p_)
                if not hasattr(ol, "handlers"):
                    opaque = True  # (a context manager made by Overlay.tapping: its handlers cannot be listed)
                mine.update(id(h) for h in getattr(ol, "handlers", ()))
            stray = [acc for _, acc in pairs if id(acc) not in mine]
            if stray and not opaque:
                probs.append(f"{len(stray)} handler(s) of probes / overlays that are not active any more are installed")
        if 9 not in active and w.h.__code__ is not w.orig["h"]:
            probs.append("the tooled function h does not run its tooled code although no probe is active on it")
        if not active:
            if I.current_collection() is not None:
                probs.append("a handler collection is still installed although nothing is active")
            if I.n_global_probes():
                probs.append("global_probes is not empty")
            for k, v in w.ns.items():
                if isinstance(k, str) and k.startswith(("__ptera", "_ptera")):
                    continue
                if k not in w.globals_before:
                    probs.append(f"module global {k!r} was added")
                elif w.globals_before[k] is not v:
                    probs.append(f"module global {k!r} was changed")
        nprobes = sum(1 for s in active if SLOTS[s][0] in ("probe", "reduce", "raising-total"))
        if I.n_global_probes() is not None and I.n_global_probes() != nprobes:
            probs.append(f"global_probes has {I.n_global_probes()} entries, {nprobes} probes are active")
        return probs

    def close(self, w):
        if w.gen is not None:
            try:
                w.gen.close()
            except BaseException:
                pass
        for s in list(w.probes):
            p = w.probes.pop(s)
            for _ in range(max(1, w.depth.get(s, 1))):
                try:
                    p.__exit__(None, None, None)
                except BaseException:
                    pass
        world.reset_context()


def _canon(ev):
    return tuple(sorted(ev.items()))


def units(tier):
    # one search per world (subset of slots), sharded by its first two operations (each shard
    # deduplicates its own states)
    return [("bfs", wname, h) for wname in WORLDS for h in H.first_ops(System(wname), 2)]


def classify(kind, hist, detail):
    """Trigger tags of a minimal violating history (used for known-finding attribution)."""
    tags = ["kind:" + kind]
    ops = [o[0] for o in hist]
    last = hist[-1]
    if last[0] == "act_bad" or "act_bad" in ops:
        tags.append("trigger:refused-activation")
    # non-LIFO: something is deactivated/left while a later activated probe/overlay is still active
    order = []
    for o in hist:
        if o[0] in ("act", "enter"):
            order.append(o[1])
        elif o[0] in ("deact", "leave", "leave_exc"):
            if order and order[-1] != o[1]:
                tags.append("trigger:non-lifo-exit")
            if o[1] in order:
                order.remove(o[1])
    return tags


def work(unit, tier):
    part = new_partial()
    system = System(unit[1])
    res = H.explore(system, BOUNDS[tier]["depth"], audit_depth=BOUNDS[tier].get("merge_audit_depth", 0), prefix=unit[2])
    part["cases"] = res.states
    part["steps"] = res.transitions
    part["evaluations"] = res.transitions
    part["nontrivial"] = res.states
    part["counters"]["replayed-steps"] = res.replayed_steps
    part["counters"]["merged-into-seen-state"] = res.merged
    part["counters"]["max-depth"] = res.max_depth
    part["counters"]["unexpanded-error-states"] = res.unexpanded_error_states
    part["counters"]["merge-audit-pairs"] = res.audit_pairs
    for k, v in res.outcomes.items():
        part["outcomes"][str(k)] += v
    part["samples"] = res.samples[:4]
    for rep, other, op in res.audit_failures:
        part["harness_errors"].append(f"merge audit: {rep!r} and {other!r} were merged but differ after {op!r}")
    listed = open_findings(PROP)
    for kind, hist, detail in res.violations:
        tags = classify(kind, hist, detail)
        v = violation(PROP, kind, {"history": [list(o) for o in hist], "world": unit[1]}, f"[{unit[1]}] {detail}", tags=tags)
        fid = None
        for e in listed.values():
            if all(t in tags for t in e["match"]["tags"]) and not any(t in tags for t in e["match"].get("not_tags", [])):
                fid = e["id"]
                break
        if fid:
            part["known"][fid] += 1
            part["known_examples"].setdefault(fid, v["case"])
        else:
            part["violations"].append(v)
    return part


def replay(case):
    system = System(case.get("world", "W1"))
    hist = tuple(tuple(o) for o in case["history"])
    w, m, problem, at = H.run_history(system, hist)
    system.close(w)
    if problem:
        return True, problem[1]
    return False, "history replays without a problem"

"""C01 - instrumentation is transparent when nothing is overridden (E1)."""
import itertools
import symtable

from pv.core import world
from pv.core.runner import new_partial, violation, HarnessError
from pv.explore import progspace as P
from pv.gen import minipy as M
from pv.props import e1common as C

PROP = "C01"
ENGINE = "E1 program-space explorer"
RULE = (
    "every MiniPy program up to the size bound (statement menu = every binding / pass-through form the "
    "property names) x inputs x in {0,1,2} x generator drivers x instrumentation route (tooled, "
    "tooled.inplace, probing on each single variable, on all variables, on all-but-one, on every subset "
    "when <=3 names, generic $x, meta variables, an external helper) x, for generators, where the generator "
    "is driven relative to the activation (inside it; created inside and first advanced after it ended; "
    "advanced once inside and the rest after; advanced once and the rest in another contextvars.Context); plus focus-free (total) probes; oracle = the untouched function in a "
    "pristine twin world: result/exception, yield transcript, ordered effect log, final state of mutable "
    "arguments, module-globals diff. non-trivial = distinct (program, input, route) cases in which at "
    "least one interaction fired (probe event delivered) or the tooled code ran"
)
ASSUMPTIONS = [
    "names starting with __ptera_ / _ptera__ are reserved for ptera and ignored in module-global diffs",
    "tracebacks, code-object identity and timing are not compared",
    "CPython reference counting finalises dropped generators immediately",
]
BOUNDS = {
    "quick": {"program_size": 2, "nesting": 2, "inputs": [0, 1, 2], "drivers": len(P.DRIVERS_QUICK)},
    "thorough": {"program_size": "2 over the full menu, 3 over the core menu of 30 forms", "nesting": 2, "inputs": [0, 1, 2], "drivers": len(P.DRIVERS_THOROUGH)},
}
CHUNK = 10


def program_sets(tier):
    return ([("gen", dict()),
            # rich signatures (positional-only, defaults, *rest, keyword-only, **kw, docstring) on small programs
            ("sig", dict(size=1 if tier == "quick" else 2, sigs=("rich", "kwonly", "doc", "closure-default", "closure-annot"), key=("c01sig", tier))),
            C.odd_set(tier),
            # a local variable annotated with a name that does not exist at run time (Python never evaluates it)
            ("annundef", dict(size=2, only=M.ODD_BASE | {"ann-undefined"}, must=frozenset({"ann-undefined"}), key=("annundef", tier)))]
            + C.core3_sets(tier))


def units(tier):
    out = []
    for name, kw in program_sets(tier):
        n = C.count_programs(tier, **kw)
        out += [(name, lo, min(n, lo + CHUNK)) for lo in range(0, n, CHUNK)]
    return out


def configs_for(info, tier):
    names = info["params"] + info["locals"]
    out = [("tooled",), ("inplace",), ("generic",), ("meta",), ("total",)]
    if "E" in info["symbols"]:
        out.append(("ext",))
    subsets = []
    k = len(names)
    if k <= 3:
        for r in range(1, k + 1):
            subsets += [frozenset(s) for s in itertools.combinations(names, r)]
    else:
        subsets += [frozenset([n]) for n in names]
        subsets += [frozenset(names) - {n} for n in names]
        subsets.append(frozenset(names))
        if tier == "thorough":
            subsets += [frozenset(s) for s in itertools.combinations(names, 2)]
    seen = set()
    for s in subsets:
        if s and s not in seen:
            seen.add(s)
            out.append(("probe", tuple(sorted(s))))
    return out


def selectors_for(cfg, info):
    if cfg[0] == "probe":
        return [f"f > {v}" for v in cfg[1]]
    if cfg[0] == "generic":
        return ["f > $x"]
    if cfg[0] == "meta":
        sels = ["f > #value", "f(!#enter, #error, !!#exit)"]
        if info["is_gen"]:
            sels += ["f > #yield", "f > #receive"]
        for lv in info["loopvars"]:
            sels.append(f"f(!#loop_{lv}, !!#endloop_{lv})")
        return sels
    if cfg[0] == "ext":
        return ["f > E"]
    if cfg[0] == "total":
        # focus-free selectors: records are put together when the call ends (raw: a variable may take
        # several values)
        return ["f(x)", "f(#enter, #exit)"]
    return []


# where a generator is driven relative to the activation that instrumented it (generator programs only):
#   late-0: created while the probes are active, first advanced after they ended
#   late-1: advanced once while they are active, the rest after they ended
#   ctx-1:  advanced once, the rest inside a copy of the context (another thread / Context.run)
PLACEMENTS = [("late", 0), ("late", 1), ("ctx", 1)]


def placements_for(cfg, info, driver):
    if not info["is_gen"] or driver is None:
        return [None]
    if cfg[0] in ("tooled", "inplace"):
        return [None, ("ctx", 1)] if cfg[0] == "tooled" else [None]
    if cfg[0] == "generic":
        return [None] + [p for p in PLACEMENTS if p[1] < len(driver)]
    return [None]


def run_config(prog, info, cfg, x, driver, part, placement=None):
    """Execute one (program, route, input, driver) in a fresh-or-clean world; returns observation."""
    import ptera
    from ptera import probing, tooled

    kind = cfg[0] if cfg[0] in ("tooled", "inplace") else "inst"
    w = C.get_world(prog, info, kind)
    C.fresh(w, info)
    events = []
    if kind in ("tooled", "inplace"):
        fn = getattr(w, "instrumented_fn", None)
        if fn is None or w.closure:
            try:
                fn = tooled(w.f) if kind == "tooled" else tooled.inplace(w.f)
            except BaseException as e:
                C.discard_world(prog, kind)
                return ("activation-failed", type(e).__name__, str(e)[:200]), False
            w.instrumented_fn = fn
            part["counters"]["transforms"] += 1
        obs = P.run(w, fn, x, driver, prog.flags, split=(placement[1], None, True) if placement else None)
        return obs, True
    else:
        sels = selectors_for(cfg, info)
        probes = []
        try:
            for s in sels:
                p = probing(s, env={"f": w.f}, raw=(cfg[0] == "total"))
                p.subscribe(events.append)
                p.__enter__()
                probes.append(p)
        except BaseException as e:
            for p in reversed(probes):
                try:
                    p.__exit__(None, None, None)
                except BaseException:
                    pass
            C.discard_world(prog, "inst")
            world.reset_context()
            return ("activation-failed", type(e).__name__, str(e)[:200]), False
        def deactivate():
            while probes:
                p = probes.pop()
                try:
                    p.__exit__(None, None, None)
                except BaseException:
                    pass

        split = None
        if placement:
            split = (placement[1], deactivate if placement[0] == "late" else None, placement[0] == "ctx")
        try:
            obs = P.run(w, w.f, x, driver, prog.flags, split=split)
        finally:
            deactivate()
        fired = bool(events)
    if world.clean_state_problems(w.f, w.orig_code):
        part["counters"]["world-rebuilt-unclean"] += 1
        C.discard_world(prog, "inst")
        world.reset_context()
    return obs, fired


def check_program(prog, tier, part):
    info = C.analyse(prog)
    if info is None:
        return
    part["counters"]["programs"] += 1
    drivers = (P.DRIVERS_THOROUGH if tier == "thorough" else P.DRIVERS_QUICK) if info["is_gen"] else [None]
    ref_w = C.get_world(prog, info, "ref")
    for x in (0, 1, 2):
        for driver in drivers:
            C.fresh(ref_w, info)
            ref = P.run(ref_w, ref_w.f, x, driver, prog.flags)
            part["outcomes"][C.outcome_class(ref)] += 1
            for cfg in configs_for(info, tier):
              for placement in placements_for(cfg, info, driver):
                part["cases"] += 1
                part["evaluations"] += 1
                obs, fired = run_config(prog, info, cfg, x, driver, part, placement)
                part["steps"] += 1
                if fired:
                    part["nontrivial"] += 1
                if placement:
                    part["counters"]["placement:%s-%d" % placement] += 1
                if obs != ref:
                    if obs[0] == "activation-failed":
                        lab, det = "activation", f"instrumentation failed: {obs[1]}: {obs[2]}"
                    else:
                        lab, det = P.first_difference(ref, obs)
                    case = {"src": prog.src, "forms": list(prog.forms), "x": x, "driver": driver, "config": list(cfg),
                            "placement": list(placement) if placement else None}
                    if placement:
                        det = f"[generator driven {placement[0]}-{placement[1]}] {det}"
                    v = violation(PROP, "not-transparent:" + str(lab), case, det, tags=["differs:" + str(lab)])
                    C.attribute(PROP, v, prog, part, lambda p2: _differs(p2, x, driver, cfg, tier, placement))
    if len(part["samples"]) < 2:
        part["samples"].append({"program": prog.src, "forms": list(prog.forms), "configs": [list(c) for c in configs_for(info, tier)][:6]})
    C.drop_worlds(prog)


def _differs(prog, x, driver, cfg, tier, placement=None):
    """Counterfactual: does this (neutralised) program still differ under the same input/route?"""
    info = C.analyse(prog)
    if info is None:
        raise HarnessError("neutralised program does not analyse: " + prog.src)
    if cfg[0] == "probe":
        names = set(info["params"] + info["locals"])
        keep = tuple(v for v in cfg[1] if v in names)
        if not keep:
            keep = tuple(info["params"][:1])
        cfg = ("probe", keep)
    part = new_partial()
    ref_w = C.get_world(prog, info, "ref")
    C.fresh(ref_w, info)
    ref = P.run(ref_w, ref_w.f, x, driver, prog.flags)
    if placement and not info["is_gen"]:
        placement = None
    obs, _ = run_config(prog, info, cfg, x, driver, part, placement)
    C.drop_worlds(prog)
    return obs != ref


def work(unit, tier):
    part = new_partial()
    name, lo, hi = unit
    kw = dict(program_sets(tier))[name]
    for prog in C.programs_slice(tier, lo, hi, **kw):
        check_program(prog, tier, part)
    return part


def replay(case):
    prog = M.Prog(case["src"], tuple(case["forms"]), C.flags_of(case["src"]), 0)
    info = C.analyse(prog)
    part = new_partial()
    ref_w = C.get_world(prog, info, "ref")
    C.fresh(ref_w, info)
    drv = tuple(case["driver"]) if case["driver"] else None
    ref = P.run(ref_w, ref_w.f, case["x"], drv, prog.flags)
    cfg = tuple(case["config"])
    if cfg[0] == "probe":
        cfg = ("probe", tuple(cfg[1]))
    pl = tuple(case["placement"]) if case.get("placement") else None
    obs, _ = run_config(prog, info, cfg, case["x"], drv, part, pl)
    C.drop_worlds(prog)
    if obs != ref:
        if obs[0] == "activation-failed":
            return True, f"instrumentation failed: {obs[1]}: {obs[2]}"
        return True, "%s: %s" % P.first_difference(ref, obs)
    return False, "instrumented run equals the reference run"

"""C09 - a suspended generator does not leak its call-path context to its caller (E3)."""
import gc

from pv.core import world
from pv.core.runner import new_partial, violation, open_findings
from pv.explore import history as H

PROP = "C09"
ENGINE = "E3 history explorer (explicit-state BFS over replayed histories)"
RULE = (
    "breadth-first search over all operation sequences up to the depth bound over {enter / leave overlay "
    "(LIFO) for overlays on 'gen > g > w' and 'g > w', create generator k, next k, close k, drop k, throw an "
    "exception into suspended generator k (k in {0,1}), driver call of g}, for generator functions with plain "
    "yields, a yield from, yields in chained / unpacking assignments, yields inside augmented assignments to "
    "a captured variable with a `return` in a finally clause, bare yields, and one that handles the thrown exception by "
    "yielding again and swallows GeneratorExit; every history is executed twice: at top level, where the handler "
    "collection seen by the driver after every step must equal the model's (entered overlays, in order), "
    "and inside one activation of an instrumented driver function under an always-on probe "
    "'drv > g > w', which must fire exactly once per driver call. In both, 'gen > g > w' must never fire "
    "for a driver call and 'g > w' must fire exactly once per driver call while entered; after the last "
    "leave nothing stays installed, whatever is done to the generators afterwards; the calls made by a "
    "generator's own body after a throw() reach the overlay that names the generator as their ancestor"
)
ASSUMPTIONS = [
    "which handlers the generator *body* sees after its overlay ended is not asserted; events caused by "
    "calls made from generator bodies are ignored",
    "CPython reference counting finalises dropped generators immediately (a gc.collect() follows every drop)",
]
BOUNDS = {"quick": {"depth": 5, "generators": "2 (1 for the two kinds that swallow exceptions)"}, "thorough": {"depth": 6, "generators": 2, "merge_audit_depth": 3}}

SRC = '''
def g(v):
    w = v
    return w

def gen(n):
    for i in range(n):
        g(100 + i)
        yield i
    g(199)

def sub():
    g(300)
    r = yield 7
    g(301)
    r2 = yield 8
    g(302)
    return r

def gen2(n):
    # delegates: suspended inside a `yield from`
    g(200)
    r = yield from sub()
    g(201)
    yield r

def gen3(n):
    # yields that are the right-hand side of chained, unpacking and annotated assignments, and a yield
    # inside an except clause that binds no name
    g(400)
    r = s = yield 0
    g(401)
    try:
        t, u = (yield 1), 0
        v: int = yield 2
        if v is None:
            raise Retry()  # the usual way into the handler: raised by the running generator itself
    except Retry:
        g(403)
        yield 3
    g(402)

class Retry(Exception):
    pass

def gen4(n):
    # handles what is thrown into it: Retry by yielding the same item again, GeneratorExit by
    # finishing quietly (legal as long as it does not yield again)
    i = 0
    try:
        while i < n:
            try:
                g(500 + i)
                yield i
            except Retry:
                continue
            i = i + 1
    except GeneratorExit:
        pass
    g(599)

def gen5(n):
    # yields inside the right-hand side of augmented assignments to a captured variable;
    # a `return` in the finally clause swallows whatever ends the generator
    total = 0
    try:
        g(600)
        total += (yield 0) or 1
        g(601)
        total += (yield 1) or 1
        g(602)
    finally:
        return total

def gen7(n):
    # delegates to a plain iterable (which has no throw method): an exception thrown in while the generator
    # is suspended there is handled by the generator's own code
    g(800)
    try:
        yield from [1, 2]
    except Retry:
        g(801)
        yield 3
    g(802)

def gen6(n):
    # bare yields (the style of a context manager or a scheduler tick)
    g(700)
    yield
    g(701)
    yield
    g(702)

def drv(steps):
    out = []
    for step in steps:
        out.append(step())
    return out
'''
OVERLAYS = {"OG": "gen > g > w", "OW": "g > w", "OG2": "gen2 > g > w", "OG3": "gen3 > g > w",
            "OG4": "gen4 > g > w", "OG5": "gen5(total) > g > w", "OG6": "gen6 > g > w", "OG7": "gen7 > g > w"}
KIND_OVERLAY = {"gen2": "OG2", "gen3": "OG3", "gen4": "OG4", "gen5": "OG5", "gen6": "OG6", "gen7": "OG7"}
FUNCS = ("g", "gen", "gen2", "gen3", "gen4", "gen5", "gen6", "gen7", "sub", "drv")
# what a generator kind does with a Retry exception thrown into it while it is suspended
HANDLES_THROW = {"gen4"}
# gen3 handles one thrown Retry when it is suspended at its second or third yield (inside the try)
YIELDS = {"gen3": 3, "gen2": 3}
# suspended at these yields, a thrown Retry is caught by the generator, which then yields from its handler
HANDLER_STATES = {"gen3": (2, 3), "gen7": (1, 2)}


_NS = [None]


def shared_ns():
    """The module with g/gen/gen2/drv is reused by all runs of this process as long as every function
    is back on its original code after a run (checked in Run); otherwise it is rebuilt."""
    if _NS[0] is None:
        ns = world.make_module(SRC, pin=True)
        ns["__orig__"] = {k: ns[k].__code__ for k in FUNCS}
        _NS[0] = ns
    return _NS[0]


class Run:
    """One execution of a whole history on a fresh world; per-step observations are recorded."""

    def __init__(self, history, inside_driver, kinds):
        from ptera import probing, BaseOverlay, Immediate
        from ptera.overlay import HandlerCollection
        from ptera.selector import select

        world.reset_context()
        self.ns = shared_ns()
        ns = self.ns
        env = {k: ns[k] for k in FUNCS}
        self.events = {k: [] for k in list(OVERLAYS) + ["PD"]}
        self.obs = []
        self.gens = {}
        self.active = {}
        self.entered = []
        handler_slot = {}
        probes = {}
        # the functions are instrumented for the whole run by non-delivering probes
        base = [probing(OVERLAYS[o], env=env) for o in ("OG", "OG2", "OG3", "OG4", "OG5", "OG6", "OG7", "OW")]
        if inside_driver:
            pd = probing("drv > g > w", env=env)
            pd.subscribe(lambda ev: self.events["PD"].append(ev["w"]))
            base.append(pd)
        for p in base:
            p.__enter__()
        from pv.core import introspect as I

        bp = I.current_pairs()
        self.base_pairs = None if bp is I.UNKNOWN else len(bp or [])
        self.in_body = False

        def make_overlay(name):
            sel = select(OVERLAYS[name], env=env)
            ol = BaseOverlay(Immediate(sel, trigger=lambda ev, n=name: self.events[n].append(ev["w"].value)))
            for h in ol.handlers:
                handler_slot[id(h)] = name
            return ol

        def snapshot():
            pairs = I.current_pairs()
            if pairs is None:
                return None
            if pairs is I.UNKNOWN:
                return "unknown"
            return tuple(handler_slot.get(id(acc), "base") for _, acc in pairs)

        def step_fn(op):
            def step():
                before = {k: len(v) for k, v in self.events.items()}
                out = "ok"
                try:
                    if op[0] == "enter":
                        ol = make_overlay(op[1])
                        self.active[op[1]] = ol
                        ol.__enter__()
                    elif op[0] == "leave":
                        self.active.pop(op[1]).__exit__(None, None, None)
                    elif op[0] == "create":
                        self.gens[op[1]] = ns[kinds[op[1]]](2)
                    elif op[0] == "next":
                        try:
                            out = ("yielded", next(self.gens[op[1]]))
                        except StopIteration:
                            out = "exhausted"
                            self.gens[op[1]] = None
                    elif op[0] == "throw":
                        try:
                            out = ("yielded", self.gens[op[1]].throw(ns["Retry"]()))
                        except StopIteration:
                            out = "exhausted"
                            self.gens[op[1]] = None
                        except ns["Retry"]:
                            out = "propagated"
                            self.gens[op[1]] = None
                    elif op[0] == "close":
                        self.gens[op[1]].close()
                        self.gens[op[1]] = None
                    elif op[0] == "drop":
                        self.gens[op[1]] = None
                        gc.collect()
                    elif op[0] == "call":
                        ns["g"](len(self.obs))
                except BaseException as e:
                    out = ("raised", type(e).__name__, str(e)[:120])
                new = {k: tuple(v[before[k]:]) for k, v in self.events.items()}
                self.obs.append((out, new, snapshot()))
                return out
            return step

        steps = [step_fn(op) for op in history]
        try:
            if inside_driver:
                ns["drv"](steps)
            else:
                for s in steps:
                    s()
            self.final = snapshot()
        finally:
            for g_ in list(self.gens.values()):
                if g_ is not None:
                    try:
                        g_.close()
                    except BaseException:
                        pass
            for ol in reversed(list(self.active.values())):
                try:
                    ol.__exit__(None, None, None)
                except BaseException:
                    pass
            for p in reversed(base):
                try:
                    p.__exit__(None, None, None)
                except BaseException:
                    pass
            world.reset_context()
            for k, code in ns["__orig__"].items():
                if world.clean_state_problems(ns[k], code):
                    _NS[0] = None
                    break


class World:
    def __init__(self, kinds):
        self.kinds = kinds
        self.history = []
        self.last = None


class System:
    def __init__(self, kinds):
        self.kinds = kinds  # generator function per slot, e.g. ("gen", "gen")

    # model: (entered overlays in order, generator status per slot, number of driver calls)
    def initial_model(self):
        return ((), ("none",) * len(self.kinds), 0)

    def enabled(self, m):
        entered, gens, ncalls = m
        ops = []
        for o in ("OG", "OW") + tuple(KIND_OVERLAY[k] for k in self.kinds if k in KIND_OVERLAY):
            if o not in entered:
                ops.append(("enter", o))
        if entered:
            ops.append(("leave", entered[-1]))
        for k, st in enumerate(gens):
            if st == "none":
                ops.append(("create", k))
            else:
                ops += [("next", k), ("close", k), ("drop", k)]
                if st != 0:
                    ops.append(("throw", k))  # only into a generator suspended at a yield
        ops.append(("call",))
        return ops

    def step_model(self, m, op):
        entered, gens, ncalls = m
        gens = list(gens)
        if op[0] == "enter":
            return (entered + (op[1],), tuple(gens), ncalls), ("step", op[0])
        if op[0] == "leave":
            return (entered[:-1], tuple(gens), ncalls), ("step", op[0])
        if op[0] == "create":
            gens[op[1]] = 0
            return (entered, tuple(gens), ncalls), ("step", op[0])
        if op[0] == "next":
            n = gens[op[1]]
            limit = YIELDS.get(self.kinds[op[1]], 2)
            if n == "handler":
                # suspended at the yield inside the except clause: the next step ends the generator
                gens[op[1]] = "none"
                return (entered, tuple(gens), ncalls), ("step", op[0])
            if self.kinds[op[1]] == "gen3" and n == 3:
                gens[op[1]] = "handler"
                return (entered, tuple(gens), ncalls), ("step", op[0])
            if n >= limit:
                gens[op[1]] = "none"
            else:
                gens[op[1]] = n + 1
            return (entered, tuple(gens), ncalls), ("step", op[0])
        if op[0] == "throw":
            if gens[op[1]] in HANDLER_STATES.get(self.kinds[op[1]], ()):
                gens[op[1]] = "handler"
            elif self.kinds[op[1]] not in HANDLES_THROW:
                gens[op[1]] = "none"  # the exception ends the generator and comes back to the driver
            return (entered, tuple(gens), ncalls), ("step", op[0])
        if op[0] in ("close", "drop"):
            gens[op[1]] = "none"
            return (entered, tuple(gens), ncalls), ("step", op[0])
        if op[0] == "call":
            return (entered, tuple(gens), ncalls + 1), ("step", "call")
        raise KeyError(op)

    def model_key(self, m):
        return (m[0], m[1])

    def outcome_class(self, m):
        return (len(m[0]), m[1])

    def fresh(self):
        return World(self.kinds)

    def apply(self, w, op):
        w.history.append(op)
        w.last = (Run(w.history, False, self.kinds), Run(w.history, True, self.kinds))
        return ("step", op[0])

    def impl_key(self, w):
        if w.last is None:
            return None
        top, drv = w.last
        return (top.obs[-1][2], drv.obs[-1][2], top.final)

    def invariant(self, w, m):
        entered, gens, ncalls = m
        top, drv = w.last
        probs = []
        op = w.history[-1]
        step = len(w.history) - 1
        value = step  # the driver calls g(index of the step)
        for name, run in (("top-level", top), ("inside drv", drv)):
            out, new, snap = run.obs[-1]
            if isinstance(out, tuple) and out[0] == "raised":
                probs.append(f"[{name}] step raised {out[1]}: {out[2]}")
                continue
            if op[0] == "call":
                for o in OVERLAYS:
                    want = (value,) if (o == "OW" and "OW" in entered) else ()
                    if new[o] != want:
                        tag = "leak" if o != "OW" else "g>w"
                        probs.append(f"[{name}] driver call g({value}): overlay {o} ({OVERLAYS[o]}) received {new[o]!r}, expected {want!r} <{tag}>")
                if name == "inside drv" and new["PD"] != (value,):
                    probs.append(f"[{name}] driver call g({value}): 'drv > g > w' received {new['PD']!r}, expected exactly one event")
            # the generator's own calls are under the generator, however it was resumed: gen4's body calls
            # g(500 + i) before every yield of item i, also when it yields the item again after a throw()
            if op[0] in ("next", "throw") and self.kinds[op[1]] in ("gen4", "gen7"):
                kind = self.kinds[op[1]]
                ov = KIND_OVERLAY[kind]
                want = body_calls(kind, w.history)
                if want is not None and new[ov] != want:
                    probs.append(f"[{name}] {op!r}: the generator's own calls of g should reach '{OVERLAYS[ov]}' as {want!r}, "
                                 f"received {new[ov]!r} <body>")
            if name == "top-level" and snap != "unknown" and run.base_pairs is not None:
                want_snap = tuple(["base"] * run.base_pairs + list(entered))
                if snap != want_snap:
                    probs.append(f"[{name}] handlers installed for the driver after {op!r}: {snap!r}, expected {want_snap!r} <installed>")
        return probs

    def close(self, w):
        pass


def body_calls(kind, history):
    """What the overlay on '<kind> > g > w' must receive from the last operation (a next / throw on a generator
    of that kind), when it has been entered since before that generator was created; None otherwise."""
    ov = KIND_OVERLAY[kind]
    entered = set()
    handler = {}
    under = {}   # slot -> OG4 entered when it was created and ever since
    count = {}
    for o in history[:-1]:
        if o[0] == "enter":
            entered.add(o[1])
        elif o[0] == "leave":
            entered.discard(o[1])
            if o[1] == ov:
                under = {k: False for k in under}
        elif o[0] == "create":
            under[o[1]] = ov in entered
            count[o[1]] = 0
            handler[o[1]] = False
        elif o[0] == "next":
            count[o[1]] = count.get(o[1], 0) + 1
        elif o[0] == "throw" and kind == "gen7":
            handler[o[1]] = True
        elif o[0] in ("close", "drop"):
            under.pop(o[1], None)
    op = history[-1]
    k = op[1]
    if not under.get(k):
        return None
    n = count.get(k, 0)  # yields delivered so far
    if kind == "gen7":
        if op[0] == "throw":
            return (801,) if not handler.get(k) else None   # caught by the generator: its handler calls g(801)
        if handler.get(k):
            return (802,)                                    # leaving the handler: the call after the try
        return {0: (800,), 1: (), 2: (802,)}.get(n)
    if op[0] == "throw":
        return (500 + n - 1,)          # the same item again
    if n < 2:
        return (500 + n,)              # next item
    return (599,)                      # the loop is over: the call after it, then exhaustion


def kinds_for(tier):
    if tier == "quick":
        # the kinds that differ in how they end (swallowed exceptions, thrown exceptions) alone
        return [("gen", "gen"), ("gen2", "gen"), ("gen3", "gen"), ("gen4",), ("gen5",), ("gen6",), ("gen7",)]
    return [("gen", "gen"), ("gen2", "gen"), ("gen3", "gen"), ("gen4", "gen"), ("gen5", "gen"), ("gen4", "gen5"), ("gen6", "gen"), ("gen7", "gen")]


def units(tier):
    out = []
    for kinds in kinds_for(tier):
        for h in H.first_ops(System(kinds), 2):
            out.append(("bfs", kinds, h))
    return out


def classify(kinds, hist, detail):
    """Known trigger: at the violating step some generator is suspended inside a `yield from`
    (it has been advanced exactly once since it was created), or the step is that very next()."""
    tags = []
    n = {}
    was = False
    for o in hist:
        if o[0] == "create":
            n[o[1]] = 0
        elif o[0] == "next" and o[1] in n:
            n[o[1]] += 1
        elif o[0] in ("close", "drop") or (o[0] == "throw" and kinds[o[1]] not in HANDLES_THROW):
            n.pop(o[1], None)
        # once a generator has been suspended inside `yield from`, the caller's collection is
        # corrupted for the rest of the history (normally the search stops at that very step)
        was = was or any(kinds[k] == "gen2" and c == 1 for k, c in n.items())
    if was:
        tags.append("trigger:suspended-in-yield-from")
    return tags


def work(unit, tier):
    part = new_partial()
    _, kinds, prefix = unit
    system = System(kinds)
    res = H.explore(system, BOUNDS[tier]["depth"], audit_depth=BOUNDS[tier].get("merge_audit_depth", 0), prefix=prefix)
    part["cases"] = res.states
    part["steps"] = res.transitions
    part["evaluations"] = res.transitions * 2
    part["nontrivial"] = res.states
    part["counters"]["replayed-steps"] = res.replayed_steps
    part["counters"]["merged-into-seen-state"] = res.merged
    part["counters"]["max-depth"] = res.max_depth
    part["counters"]["unexpanded-error-states"] = res.unexpanded_error_states
    for k, v in res.outcomes.items():
        part["outcomes"][str(k)] += v
    part["samples"] = res.samples[:3]
    for rep, other, op in res.audit_failures:
        part["harness_errors"].append(f"merge audit: {rep!r} and {other!r} were merged but differ after {op!r}")
    listed = open_findings(PROP)
    for kind, hist, detail in res.violations:
        tags = classify(kinds, hist, detail)
        v = violation(PROP, kind, {"history": [list(o) for o in hist], "kinds": list(kinds)}, detail, tags=tags)
        fid = None
        for e in listed.values():
            if all(t in tags for t in e["match"]["tags"]):
                fid = e["id"]
                break
        if fid:
            part["known"][fid] += 1
            part["known_examples"].setdefault(fid, v["case"])
        else:
            part["violations"].append(v)
    return part


def replay(case):
    system = System(tuple(case.get("kinds", ("gen", "gen"))))
    hist = tuple(tuple(o) for o in case["history"])
    w, m, problem, at = H.run_history(system, hist)
    if problem:
        return True, problem[1]
    return False, "history replays without a problem"

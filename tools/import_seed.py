#!/usr/bin/env python3
"""tools/import_seed.py <src dir> <seed id> <caught_by csv> <first_missed yes|no> [note]"""
import json, os, shutil, sys
src, sid, caught, missed = sys.argv[1:5]
note = sys.argv[5] if len(sys.argv) > 5 else ""
dst = os.path.join("/verif/seeded", sid)
os.makedirs(dst, exist_ok=True)
shutil.copy(os.path.join(src, "patch.diff"), dst)
shutil.copy(os.path.join(src, "demo.py"), dst)
m = json.load(open(os.path.join(src, "meta.json")))
meta = {
    "id": sid,
    "property": m.get("property"),
    "summary": m.get("summary"),
    "needs": m.get("needs"),
    "origin": "written by an independent sub-agent that saw only the property text and a scratch worktree",
    "confirmed": "tools/seedrun.sh: patch applies to /repo HEAD, repo test suite 269 passed with it, demo.py exits non-zero with the patch and 0 without",
    "caught_by_quick_checks": caught.split(",") if caught else [],
    "missed_by_first_version_of_check": missed == "yes",
    "note": note,
}
json.dump(meta, open(os.path.join(dst, "meta.json"), "w"), indent=1)
print("imported", sid)

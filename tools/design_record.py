#!/usr/bin/env python3
"""Regenerate the machine-derived tables of DESIGN.md section 12 (seeded changes) from seeded/*/meta.json."""
import json, glob
rows = []
for d in sorted(glob.glob('/verif/seeded/*/meta.json')):
    m = json.load(open(d))
    rows.append((m['id'], m['property'], (m['summary'] or '').replace('|', '/').replace('\n', ' ')[:150],
                 ', '.join(m['caught_by_quick_checks']), 'missed at first' if m['missed_by_first_version_of_check'] else 'caught at once',
                 ((m.get('note') or '') + (' [superseded: patch applies to an earlier tree only]' if m.get('superseded') else '')).replace('|', '/')[:200]))
print("| seed | property | change | caught by (quick) | first run | what the check lacked |")
print("|---|---|---|---|---|---|")
for r in rows:
    print("| " + " | ".join(r) + " |")

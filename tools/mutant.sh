#!/bin/bash
# usage: tools/mutant.sh <patch.diff> <Cxx> [<Cxx>...]   - apply to /repo, run repo tests + quick checks, revert
set -u
patch=$1; shift
cd /repo || exit 3
if ! git diff --quiet; then echo "repo dirty"; exit 3; fi
git apply "$patch" || { echo "patch does not apply"; exit 3; }
echo "== repo tests"; /venv/bin/python -m pytest -q -p no:cacheprovider -x 2>&1 | tail -1
for p in "$@"; do
  echo "== $p"; (cd /verif && timeout 1800 ./check "$p" --tier ${TIER:-quick} 2>&1 | grep -E "^VIOLATION|^\[C|KNOWN|HARNESS" | head -8)
done
git checkout -- . ; git status --short | head -3

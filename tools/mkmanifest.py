#!/usr/bin/env python3
"""Regenerate MANIFEST.json from the table below (keeps it valid and current)."""
import json, os, sys
ROOT = os.path.dirname(os.path.dirname(os.path.abspath(__file__)))

ENGINES = {
 "E1": ("pv/explore/progspace.py", "program-space explorer: exhaustive enumeration of MiniPy programs x inputs x drivers x instrumentation configurations, executed on the real ptera and compared with an untouched copy / an independently generated reference twin"),
 "E2": ("pv/explore/calltree.py", "call-tree explorer: all labelled ordered call trees x all chain/sibling selectors, compared with a reference selector semantics (RSS) over the tree's own activation log"),
 "E3": ("pv/explore/history.py", "explicit-state breadth-first search over operation histories replayed on the real API, with a boring reference model stepped in lock-step and implementation-state canonicalisation"),
 "E4": ("pv/explore/sched.py", "stateless preemption-bounded schedule exploration (CHESS-style) of real threads under a sys.settrace baton scheduler"),
 "E5": ("pv/explore/strings.py", "exhaustive token-string / edit-neighbour / spelling enumeration against the real parser, select() and probe activation"),
 "E6": ("pv/explore/box.py", "exhaustive finite box / configuration enumeration"),
}

# id: (engine, design_ref, level text, level note)
CHECKS = {
 "C01": ("E1", "3 (C01), 2.2 (E1)", "every MiniPy program up to the size bound, on every input, under every instrumentation route and capture subset of the stated family, behaves exactly like the untouched function (result/exception, yield transcript, ordered effect log, argument state, module globals)", "bounded program size and menu; names reserved by ptera ignored in module-global diffs; CPython refcounting"),
 "C02": ("E1", "3 (C02)", "for every program/input/focus/context of the bounded space the probe stream equals the binding history logged by an independently generated twin", "the twin generator (pv/gen/twin.py) is the reference for what a binding is; twin==plain is re-checked on every case"),
 "C03": ("E2", "3 (C03), 2.2 (E2, RSS)", "for every ordered labelled call tree up to the node bound and every chain/sibling selector up to the depth bound the probe stream equals the reference selector semantics: one event per embedding of the chain into the live stack per focus binding, context values from exactly the matched activations", "RSS (pv/models/rss.py) is the reference; it carries its own hand-checked conformance fixture; selectors enumerated up to renaming of the three identical functions"),
 "C04": ("E1", "3 (C04)", "for every program/input/focus of the bounded space and every listed stack of overriding and plain handlers the overridden run equals the substituted twin (result, effect log, argument state) and plain probes see the substituted values; closure variables raise OverrideException", "the substituted twin is the reference; subscript stores cannot be selected; what an overriding probe's own pipeline sees is not asserted"),
 "C05": ("E3", "3 (C05), 2.2 (E3)", "explicit-state search over every history up to the depth bound of activations/deactivations (any order), with-blocks (LIFO, normal and exceptional exit), refused activations, shielded blocks, copied contexts, generators, code that (de)activates probes from inside a call, and calls, in six worlds, replayed on the real API: every active probe receives exactly the model's events, inactive ones none; counters, installed code, handler collection, module globals and global_probes are clean whenever the model says so", "states are merged on a canonical key of the implementation state (audited in the thorough tier); error states are not expanded"),
 "C06": ("E1", "3 (C06)", "for every control-flow skeleton and generator driver sequence of the bounded space the merged meta-event stream equals the twin's explicit try/except/finally log and satisfies the bracket grammar", "GeneratorExit #error on close/drop and multi-variable loop bracket order are not asserted"),
 "C07": ("E2", "3 (C07)", "for every call tree (optionally with a raising node) and every focus-free selector, and every focused selector forced to total mode, the records delivered at each root exit equal the RSS total semantics", "records are attributed to exits by their position in the program's own activation log"),
 "C08": ("E4", "3 (C08), 2.2 (E4)", "every interleaving, up to the preemption bound, of two (three) real threads that activate their own probe on shared functions, call them and deactivate, with scheduling points at every line (critical configuration: every bytecode) of the ptera functions touching cross-thread state and library locks replaced by cooperative ones: per-thread events and results equal the sequential reference, no exception, no deadlock, clean state after join", "Python-level interleavings under the GIL inside the listed functions only; schedules are replayed deterministically (divergence = exit 2)"),
 "C09": ("E3", "3 (C09)", "explicit-state search over every history up to the depth bound of overlay enter/leave, generator create/next/throw/close/drop (seven generator kinds) and driver calls, executed at top level and inside an instrumented driver: the handlers installed for the driver always equal the entered overlays, generator-ancestor selectors never fire for driver calls, driver-ancestor selectors fire exactly once", "events caused by calls made from generator bodies are asserted only for the kind that handles throw(); refcounting finalisation"),
 "C10": ("E1", "3 (C10)", "for every program of the bounded space and every identifier (symtable names, fresh names, #meta names) activation succeeds with the provenance Python's symtable implies, or is refused with SelectorError; plus a battery of unresolvable / non-function targets", "symtable is the scoping oracle; comprehension variables and nested-scope-only identifiers are not asserted"),
 "C11": ("E1", "3 (C11)", "for every placement of tag annotations (string and object spelling, orders, repetition) on <=3/4 sites and every tag selector, the raw stream, the instrumented set and function-tag matching equal the generator's tag map; tag-set algebra exhaustively over <=4 tags of a 4-tag alphabet", "each variable annotated at most once; string spelling only for parameters and annotated assignments"),
 "C12": ("E6", "3 (C12)", "stock predicates agree with their arithmetic definition on the whole integer box; for every call tree and every chain selector with conditions on up to 3 captures the delivered events are the unconstrained events filtered by the reference predicate, and overrides are applied on exactly those bindings", "throttle: only the stability of its verdict on a repeated value is decided (no arithmetic meaning given)"),
 "C13": ("E6", "3 (C13)", "for every population of instances of nine receiver kinds, every probed target and every call sequence up to the bounds, events are exactly the calls whose receiver is the probed object (identity), reported under the receiver parameter's name; decorated/property/dotted paths resolve; the same-named plain function is never affected", "identity of the receiver is the reference"),
 "C14": ("E3", "3 (C14)", "for every placement of a function in a generated module and both registry cache modes, explicit-state search over every history up to the depth bound of activate-by-name / activate-by-reference / deactivate / call / resolve: the reference always resolves to the very function, activation by reference always succeeds, and probes by name and by reference receive the same events", "one live closure per code object; hot reload not in the alphabet; cache mode made explicit instead of timing-dependent"),
 "C15": ("E5", "3 (C15)", "every selector of the IR up to the depth/width bound, in every documented spelling and whitespace variant, compiles to one and the same object that decodes back to the IR", "the IR->structure map is the reference meaning of the notation"),
 "C16": ("E1", "3 (C16)", "for every program with bare declarations / maybe-undefined globals of the bounded space, every route and every supplied subset, the call equals the twin in which a declaration is `v = SUPPLIED[v]` or `raise NameError` (so failures are at the declaration), PteraNameError carries variable/function/annotation/provenance, and the ABSENT marker never reaches results, events or the effect log", "NameError/UnboundLocalError/PteraNameError are one family; un-instrumented functions are plain Python and outside the space"),
 "C17": ("E3", "3 (C17)", "explicit-state search over every history up to the depth bound of stage attachment, activation, calls, deactivation (normal/exceptional), re-activation attempts and second deactivation: each stage's output equals the model's (events inside the window after attachment; reductions publish once at deactivation), refused re-activation changes nothing; plus one subprocess per scenario for probes still active at interpreter exit", "outputs of max()/last() on an empty window are not asserted (only the state afterwards)"),
 "C18": ("E5", "3 (C18)", "every token string up to the length bound, every edit neighbour of every valid selector and every ill-formedness injection is refused with an allowed error class (or accepted), never with an internal error, within a watchdog", "deliberate refusals are recognised by the innermost frame being an explicit raise statement inside ptera"),
}
TECH = {
 "E1": "bounded exhaustive program-space enumeration on the real implementation with a differential / reference-twin oracle (small-scope model checking, no sampling)",
 "E2": "bounded exhaustive call-tree x selector enumeration on the real implementation against reference selector semantics",
 "E3": "explicit-state BFS over operation histories on the real implementation with lock-step reference model",
 "E4": "stateless preemption-bounded interleaving exploration of real threads (iterative context bounding)",
 "E5": "bounded exhaustive string-space enumeration on the real implementation",
 "E6": "exhaustive enumeration of a finite box of inputs / configurations",
}
ALL = ["C%02d" % i for i in range(1, 19)]

def main():
    checks = []
    for pid in ALL:
        if pid not in CHECKS:
            continue
        eng, ref, text, note = CHECKS[pid]
        checks.append({
            "property_id": pid,
            "quick_cmd": f"./check {pid} --tier quick",
            "thorough_cmd": f"./check {pid} --tier thorough",
            "evidence_file": f"evidence/{pid}.json",
            "replay_cmd_template": f"./check {pid} --replay {{path}}",
            "engine": eng,
            "level_claimed": {"category": "model_checking", "text": text, "design_ref": "DESIGN.md " + ref},
            "level_note": note,
            "technique": TECH[eng],
        })
    used = sorted({c["engine"] for c in checks})
    m = {
        "version": 1,
        "setup_cmd": "/venv/bin/python -c \"import ptera, giving, codefind; print('ptera from', ptera.__file__)\"",
        "hooks": {
            "guard": "PTERA_VERIF",
            "enable": "no source hooks: checks import ptera from /repo's working tree (ptera.pth) and inject scheduling points from outside with sys.settrace; ./check sets PTERA_VERIF=1 and PYTHONHASHSEED=0 for its own process only",
            "baseline_off_cmd": "cd /repo && /venv/bin/python -m pytest -ra -q -p no:cacheprovider --timeout=900 --continue-on-collection-errors",
            "source_commits": [],
            "add_only": True,
        },
        "engines": [{"name": e, "path": ENGINES[e][0], "serves_properties": [c["property_id"] for c in checks if c["engine"] == e], "kind_free_text": ENGINES[e][1]} for e in used],
        "checks": checks,
        "not_applicable": [{"property_id": p, "reason": "check under construction in this session (see DESIGN.md section 8); not claimed yet"} for p in ALL if p not in CHECKS],
        "notes": "See DESIGN.md. All checks: ./check <Cxx> --tier quick|thorough; exit 0 / 1 (+VIOLATION line) / 2 (harness inconsistency). known_findings.json lists genuine defects (open: reported as KNOWN-FINDING; fixed: repaired by fix: commits in /repo).",
    }
    with open(os.path.join(ROOT, "MANIFEST.json"), "w") as f:
        json.dump(m, f, indent=1)
    print("wrote MANIFEST.json with", len(checks), "checks")

main()

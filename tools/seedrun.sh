#!/bin/bash
# usage: tools/seedrun.sh <seed dir with patch.diff + demo.py> <Cxx> [<Cxx>...]
# applies the patch to /repo, runs repo tests, the demo (must fail) and the quick checks, reverts, runs demo (must pass)
set -u
d=$1; shift
cd /repo || exit 3
if ! git diff --quiet; then echo "repo dirty"; exit 3; fi
git apply "$d/patch.diff" 2>/dev/null || { echo "PATCH-DOES-NOT-APPLY"; git reset -q --hard; exit 3; }
echo "tests: $(/venv/bin/python -m pytest -q -p no:cacheprovider -x 2>&1 | tail -1)"
if [ -f "$d/demo.py" ]; then (cd /repo && PYTHONPATH=/repo timeout 120 /venv/bin/python "$d/demo.py" >/dev/null 2>&1; echo "demo-with-patch rc=$?"); fi
for p in "$@"; do
  out=$(cd /verif && timeout 1800 ./check "$p" --tier ${TIER:-quick} 2>&1); rc=$?
  echo "check $p rc=$rc $(echo "$out" | grep -c '^VIOLATION') violation lines; $(echo "$out" | grep -E '^\[C' | tail -1)"
  echo "$out" | grep -E "^  kind=" | head -2
  echo "$out" | grep -E "HARNESS" | head -2
done
git checkout -- . ; git status --short | head -3
if [ -f "$d/demo.py" ]; then (cd /repo && PYTHONPATH=/repo timeout 120 /venv/bin/python "$d/demo.py" >/dev/null 2>&1; echo "demo-without-patch rc=$?"); fi

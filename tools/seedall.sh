#!/bin/bash
# Re-run every kept seeded mutant against the quick check recorded as catching it, in a scratch
# worktree of /repo (PTERA_SRC), so /repo itself is never modified.
# usage: tools/seedall.sh [pattern]   -> one line per seed: CAUGHT / MISSED
cd "$(dirname "$0")/.."
WT=/tmp/seedwt_$$
git -C /repo worktree add -q --detach $WT HEAD || exit 3
trap "git -C /repo worktree remove --force $WT" EXIT
for d in seeded/${1:-*}/; do
  id=$(basename $d)
  checks=$(/venv/bin/python -c "import json;print(' '.join(json.load(open('$d/meta.json'))['caught_by_quick_checks']))")
  first=$(echo $checks | cut -d' ' -f1)
  if grep -q '"superseded"' $d/meta.json; then echo "$id SUPERSEDED (its lines were rewritten by a later repair)"; continue; fi
  git -C $WT reset -q --hard; git -C $WT clean -fdq
  PATCH=$PWD/$d/patch.diff
  if ! git -C $WT apply $PATCH 2>/dev/null; then
    # the tree has been repaired since the seed was made: try with fuzz before giving up
    git -C $WT reset -q --hard
    if ! (cd $WT && patch -p1 -s -F3 --no-backup-if-mismatch < $PATCH >/dev/null 2>&1); then echo "$id PATCH-DOES-NOT-APPLY"; continue; fi
    if ! (cd $WT && /venv/bin/python -c "import ptera" 2>/dev/null); then echo "$id PATCH-DOES-NOT-APPLY (fuzz broke the import)"; continue; fi
  fi
  out=$(PTERA_SRC=$WT VERIF_JOBS=${SEED_JOBS:-8} timeout 1800 ./check $first --tier quick 2>&1); rc=$?
  n=$(echo "$out" | grep -c '^VIOLATION')
  if [ $rc -eq 1 ] && [ $n -gt 0 ]; then echo "$id CAUGHT by $first ($n violation lines)"; else echo "$id MISSED by $first rc=$rc"; fi
done

#!/bin/bash
# Re-run every kept seeded mutant against the quick checks recorded as catching it.
# usage: tools/seedall.sh [pattern]   -> prints one line per seed: CAUGHT / MISSED
cd /verif
for d in seeded/${1:-*}/; do
  id=$(basename $d)
  checks=$(/venv/bin/python -c "import json;print(' '.join(json.load(open('$d/meta.json'))['caught_by_quick_checks']))")
  first=$(echo $checks | cut -d' ' -f1)
  cd /repo
  if ! git diff --quiet; then echo "repo dirty"; exit 3; fi
  if ! git apply $OLDPWD/$d/patch.diff 2>/dev/null && ! git apply --3way $OLDPWD/$d/patch.diff 2>/dev/null; then echo "$id PATCH-DOES-NOT-APPLY"; git checkout -- . ; cd /verif; continue; fi
  cd /verif
  out=$(timeout 1800 ./check $first --tier quick 2>&1); rc=$?
  n=$(echo "$out" | grep -c '^VIOLATION')
  if [ $rc -eq 1 ] && [ $n -gt 0 ]; then echo "$id CAUGHT by $first ($n violation lines)"; else echo "$id MISSED by $first rc=$rc"; fi
  git -C /repo checkout -- .
done
